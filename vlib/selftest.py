"""Self-test of the trusted base (reference model, readers).  Run by setup.sh (full) and at the
start of every check (quick).  Independent of segno."""
import glob
import os
import random

from . import qrref as R

HERE = os.path.dirname(os.path.abspath(__file__))

_EXPECT = {
    'iso-fig-1': (1, 'M', 5, [('byte', b'QR Code Symbol')], None),
    'iso-i2': (1, 'M', 2, [('numeric', b'01234567')], None),
    'iso-i3': ('M2', 'L', 1, [('numeric', b'01234567')], None),
    'iso-fig-29': (4, 'M', 4, [('alphanumeric', b'ABCDEFGHIJKLMNOPQRSTUVWXYZ0123456789ABCDEFGHIJKLMNOPQRSTUVWXYZ')], None),
    'seq-iso-04-01': (1, 'M', 4, [('alphanumeric', b'ABCDEFGHIJKLMNOP')], (0, 3, 1)),
    'seq-iso-04-02': (1, 'M', 4, [('alphanumeric', b'QRSTUVWXYZ012345')], (1, 3, 1)),
    'seq-iso-04-03': (1, 'M', 4, [('alphanumeric', b'6789ABCDEFGHIJK')], (2, 3, 1)),
    'seq-iso-04-04': (1, 'M', 4, [('alphanumeric', b'LMNOPQRSTUVWXYZ')], (3, 3, 1)),
}


def read_fixture(name):
    with open(os.path.join(HERE, 'fixtures', name + '.txt')) as f:
        return [[int(c) for c in ln.strip()] for ln in f if ln.strip()]


def _iso_figures():
    for name, (v, lvl, mask, segs, sa) in _EXPECT.items():
        d = R.decode(read_fixture(name))
        got = (d['version'], d['level'], d['mask'], [(s['mode'], s['data']) for s in d['segments']], d['sa'])
        assert got == (v, lvl, mask, segs, sa), (name, got)
        assert not d['structure_errors'], name
        assert all(d['rs_ok']), name
        assert all(h == 0 for h, _ in d['format_decoded']), name
        # the tail of the figures printed in the standard follows iso_tail (the seq-* grids come from
        # the repository's test data, two of them show the extra zero codeword recorded as K1, so
        # they only serve the Structured Append header parser)
        if not name.startswith('seq-'):
            assert d['data_bits'][d['end']:] == R.iso_tail(v, lvl, d['end']), (name, 'tail')
            assert R.build_matrix(v, lvl, mask, d['data_bits']) == tuple(tuple(r) for r in read_fixture(name)), name


def _rs(rounds):
    rnd = random.Random(5)
    for n_ec in (2, 5, 6, 7, 8, 10, 13, 14, 15, 16, 17, 18, 20, 22, 24, 26, 28, 30):
        for _ in range(rounds):
            k = rnd.randint(1, 120)
            data = [rnd.randrange(256) for _ in range(k)]
            cw = data + R.rs_encode(data, n_ec)
            assert not any(R.rs_syndromes(cw, n_ec))
            t = rnd.randint(0, n_ec // 2)
            bad = list(cw)
            for p in rnd.sample(range(len(cw)), t):
                bad[p] ^= rnd.randrange(1, 256)
            assert R.rs_correct(bad, n_ec) == cw, (n_ec, t)
        # beyond the correction capacity the decoder must not return the original silently
        data = [rnd.randrange(256) for _ in range(40)]
        cw = data + R.rs_encode(data, n_ec)
        bad = list(cw)
        for p in rnd.sample(range(len(cw)), n_ec // 2 + 1):
            bad[p] ^= rnd.randrange(1, 256)
        assert R.rs_correct(bad, n_ec) != cw


def _tables():
    assert R.bch15_5(0b00101) ^ 0x5412 == 0b100000011001110  # ISO 7.9.1 example (M, mask 101)
    assert R.golay18_6(7) == 0b000111110010010100  # ISO 7.10 example
    assert R.alignment_positions(7) == (6, 22, 38)
    assert R.alignment_positions(32) == (6, 34, 60, 86, 112, 138)
    assert R.alignment_positions(40) == (6, 30, 58, 86, 114, 142, 170)
    assert R.data_capacity_bits(1, 'L') == 152 and R.data_capacity_bits(40, 'L') == 23648
    assert R.data_capacity_bits(40, 'H') == 10208 and R.data_capacity_bits('M3', 'M') == 68
    for v in range(1, 41):
        assert len(R.data_positions(v)) == R.raw_data_modules(v)
    assert [len(R.data_positions(v)) for v in R.MICRO] == [36, 80, 132, 192]


def _mini_roundtrip():
    """Encode with the model's own miniature encoder and decode again."""
    rnd = random.Random(7)
    for v, lvl in ((1, 'L'), (2, 'H'), (5, 'Q'), (7, 'M'), ('M1', None), ('M2', 'M'), ('M3', 'L'), ('M4', 'Q')):
        for mask in range(R.n_masks(v)):
            n = rnd.randint(1, 5)
            payload = bytes(rnd.choice(b'0123456789') for _ in range(n))
            m = R.mini_encode(v, lvl, mask, [('numeric', payload)])
            d = R.decode(m)
            assert (d['version'], d['level'], d['mask']) == (v, lvl, mask)
            assert [(s['mode'], s['data']) for s in d['segments']] == [('numeric', payload)]
            assert not d['structure_errors'] and all(d['rs_ok'])
            assert d['data_bits'][d['end']:] == R.iso_tail(v, lvl, d['end'])


def run(quick=True):
    _tables()
    _iso_figures()
    _rs(2 if quick else 30)
    _mini_roundtrip()
    if not quick:
        from . import raster, vector  # noqa: F401  (their own self tests)
        raster.selftest()
        vector.selftest()
    return True


if __name__ == '__main__':
    run(quick=False)
    print('selftest ok')
