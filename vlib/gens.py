"""Hypothesis strategies producing JSON cases for the encoder properties."""
from functools import lru_cache

from hypothesis import strategies as st

from . import qrref as R
from .common import enc_content, MODE_CONST, segment_bits

MODES = ('numeric', 'alphanumeric', 'byte', 'kanji', 'hanzi')
DIGITS = '0123456789'
LATIN1 = ''.join(chr(c) for c in range(0x20, 0x7f)) + ''.join(chr(c) for c in range(0xa0, 0x100))
CONTROLS = '\x00\x01\t\n\r\x1b\x7f\x80\x9f'


@lru_cache(None)
def sjis_chars():
    """All characters with a double-byte Shift JIS code inside the Kanji mode ranges."""
    out = []
    for hi in list(range(0x81, 0xa0)) + list(range(0xe0, 0xec)):
        for lo in range(0x40, 0xfd):
            if lo == 0x7f:
                continue
            code = (hi << 8) | lo
            if not (0x8140 <= code <= 0x9ffc or 0xe040 <= code <= 0xebbf):
                continue
            try:
                ch = bytes((hi, lo)).decode('shift_jis')
            except UnicodeDecodeError:
                continue
            # characters which ISO 8859-1 can represent are encoded in ISO 8859-1 by the text policy
            if len(ch) == 1 and ord(ch) > 255 and ch.encode('shift_jis') == bytes((hi, lo)):
                out.append(ch)
    return ''.join(out)


@lru_cache(None)
def gb_chars():
    out = []
    for hi in list(range(0xa1, 0xab)) + list(range(0xb0, 0xf8)):
        for lo in range(0xa1, 0xff):
            try:
                ch = bytes((hi, lo)).decode('gb2312')
            except UnicodeDecodeError:
                continue
            if len(ch) == 1 and ch.encode('gb2312') == bytes((hi, lo)):
                out.append(ch)
    return ''.join(out)


def max_len(v, lvl, mode):
    """Maximal number of payload *characters* of a single segment of ``mode`` in (v, lvl)."""
    cap = R.data_capacity_bits(v, lvl)
    step = 2 if mode in ('kanji', 'hanzi') else 1
    if segment_bits(v, mode, 0) is None:
        return -1
    lo, hi = 0, 8000
    while lo < hi:
        mid = (lo + hi + 1) // 2
        b = segment_bits(v, mode, mid * step)
        if b is not None and b <= cap:
            lo = mid
        else:
            hi = mid - 1
    return lo


def versions_for(mode, micro):
    """Versions in which ``mode`` exists; micro in (None, True, False)."""
    res = []
    for v in R.ALL_VERSIONS:
        if R.is_micro(v) and micro is False:
            continue
        if not R.is_micro(v) and micro is True:
            continue
        if R.cci_bits(v, mode) is None:
            continue
        res.append(v)
    return res


def _text(alphabet, n):
    return st.text(alphabet=alphabet, min_size=n, max_size=n)


def alphabet_for(mode):
    return {'numeric': DIGITS, 'alphanumeric': R.ALNUM, 'byte': LATIN1 + 'abcXYZ,;:',
            'kanji': sjis_chars(), 'hanzi': gb_chars()}[mode]


# version weights: small symbols are cheap, large ones expensive
def version_strategy(versions, big=0.06):
    small = [v for v in versions if R.is_micro(v) or v <= 6]
    mid = [v for v in versions if not R.is_micro(v) and 6 < v <= 14]
    large = [v for v in versions if not R.is_micro(v) and v > 14]
    opts = []
    if small:
        opts += [st.sampled_from(small)] * 14
    if mid:
        opts += [st.sampled_from(mid)] * 4
    if large:
        opts += [st.sampled_from(large)] * (1 if big < 0.1 else 4)
    return st.one_of(*opts)


ECI_ENCODINGS = ('cp437', 'iso-8859-1', 'iso-8859-2', 'iso-8859-3', 'iso-8859-4', 'iso-8859-5', 'iso-8859-6',
                 'iso-8859-7', 'iso-8859-8', 'iso-8859-9', 'iso-8859-10', 'iso-8859-11', 'iso-8859-13',
                 'iso-8859-14', 'iso-8859-15', 'iso-8859-16', 'shift_jis', 'cp1250', 'cp1251', 'cp1252',
                 'cp1256', 'utf-16-be', 'utf-8', 'ascii', 'big5', 'gb18030', 'euc_kr', 'gbk', 'gb2312',
                 'latin1', 'UTF-8', 'Shift_JIS', 'utf8', 'sjis')
OTHER_ENCODINGS = ('utf-16', 'utf-32', 'cp850', 'utf-16-le', 'koi8-r')

MIXED_ALPHABET = st.one_of(
    st.sampled_from(DIGITS), st.sampled_from(R.ALNUM), st.sampled_from(LATIN1), st.sampled_from(LATIN1),
    st.sampled_from(sjis_chars()), st.sampled_from(gb_chars()), st.sampled_from(CONTROLS),
    st.characters(min_codepoint=0x100, max_codepoint=0x2fff), st.characters(min_codepoint=0x1f300, max_codepoint=0x1f6ff),
    st.sampled_from('äöüßé€αβγЖжשلا한글'))


@st.composite
def free_text(draw, max_size=40):
    kind = draw(st.integers(0, 9))
    n = draw(st.one_of(st.sampled_from([0, 1, 2, 3]), st.integers(0, max_size)))
    if kind < 2:
        return draw(_text(DIGITS, n))
    if kind < 4:
        return draw(_text(R.ALNUM, n))
    if kind < 5:
        return draw(_text(LATIN1, n))
    if kind < 6:
        return draw(_text(sjis_chars(), n))
    if kind < 7:
        return draw(_text(gb_chars(), n))
    return ''.join(draw(st.lists(MIXED_ALPHABET, min_size=n, max_size=n)))


SJIS_LEAD = list(range(0x81, 0xa0)) + list(range(0xe0, 0xec))


@st.composite
def shaped_bytes(draw, max_pairs=12):
    """bytes: uniform, Shift-JIS shaped (any trail byte), GB2312 shaped (any trail byte), digits."""
    kind = draw(st.integers(0, 9))
    if kind < 3:
        return draw(st.binary(max_size=2 * max_pairs))
    n = draw(st.integers(1, max_pairs))
    if kind < 6:
        edge_trail = st.sampled_from([0x00, 0x30, 0x39, 0x3f, 0x40, 0x7e, 0x7f, 0x80, 0xfc, 0xfd, 0xff])
        pairs = draw(st.lists(st.tuples(st.sampled_from(SJIS_LEAD), st.one_of(st.integers(0, 255), edge_trail)),
                              min_size=n, max_size=n))
        return bytes(b for p in pairs for b in p)
    if kind < 8:
        lead = list(range(0xa1, 0xab)) + list(range(0xb0, 0xfb))
        edge_trail = st.sampled_from([0x00, 0x30, 0xa0, 0xa1, 0xfe, 0xff])
        pairs = draw(st.lists(st.tuples(st.sampled_from(lead), st.one_of(st.integers(0, 255), edge_trail)),
                              min_size=n, max_size=n))
        return bytes(b for p in pairs for b in p)
    if kind < 9:
        return bytes(draw(st.lists(st.integers(0x30, 0x39), min_size=n, max_size=2 * n)))
    return bytes(draw(st.lists(st.sampled_from(list(R.ALNUM.encode())), min_size=n, max_size=2 * n)))


def opt(draw, strategy, p=0.5):
    """Returns (present, value)."""
    if draw(st.integers(0, 99)) < p * 100:
        return True, draw(strategy)
    return False, None


@st.composite
def length_near(draw, mx):
    """A length in 0..mx biased to the ends."""
    if mx <= 0:
        return 0
    k = draw(st.integers(0, 9))
    if k < 4:
        return max(0, mx - draw(st.integers(0, 2)))
    if k < 6:
        return min(mx, draw(st.integers(1, 4)))
    return draw(st.integers(1, mx))


@st.composite
def constructive_single(draw, fns=('make', 'make_qr', 'make_micro'), modes=MODES, big=0.06, want_fit=True):
    """A single-part case built so that segno should accept it: mode, version, level are drawn
    first, the content is made to fit."""
    fn = draw(st.sampled_from(fns))
    micro = {'make_qr': False, 'make_micro': True}.get(fn)
    if fn == 'make':
        micro = draw(st.sampled_from([None, None, True, False]))
    mode = draw(st.sampled_from(modes))
    versions = versions_for(mode, micro)
    if not versions:  # e.g. hanzi with make_micro
        mode = 'numeric'
        versions = versions_for(mode, micro)
    v = draw(version_strategy(versions, big))
    lvl = draw(st.sampled_from(R.levels_of(v)))
    mx = max_len(v, lvl, mode)
    n = draw(length_near(mx))
    if not want_fit and draw(st.booleans()):
        n = mx + draw(st.integers(1, 2))
    text = draw(_text(alphabet_for(mode), n))
    kw = {}
    as_bytes = draw(st.integers(0, 4)) == 0
    codec = {'kanji': 'shift_jis', 'hanzi': 'gb2312'}.get(mode, 'iso-8859-1')
    if mode == 'numeric' and 0 < n <= 4000 and draw(st.integers(0, 5)) == 0 and not text.startswith('0'):
        content = int(text)
    elif as_bytes:
        content = text.encode(codec)
    else:
        content = text
    if mode == 'byte' and not as_bytes:
        has, enc = opt(draw, st.sampled_from(ECI_ENCODINGS + OTHER_ENCODINGS), 0.4)
        if has:
            try:
                nbytes = len(text.encode(enc))
                if nbytes <= mx:
                    kw['encoding'] = enc
            except (UnicodeError, LookupError):
                pass
    if draw(st.integers(0, 9)) < 6:
        kw['version'] = v if draw(st.integers(0, 5)) else str(v).lower()
    if draw(st.integers(0, 9)) < 6 and lvl is not None:
        kw['error'] = lvl if draw(st.integers(0, 3)) else lvl.lower()
    # mode must be given for hanzi; may be given otherwise
    if mode == 'hanzi' or draw(st.integers(0, 9)) < 3:
        kw['mode'] = mode
    if 'version' not in kw and R.is_micro(v) and micro is None and draw(st.booleans()):
        pass  # let segno choose
    if fn == 'make' and micro is not None:
        kw['micro'] = micro
    elif fn == 'make' and draw(st.integers(0, 3)) == 0:
        kw['micro'] = None
    if draw(st.integers(0, 9)) < 5:
        kw['mask'] = draw(st.integers(0, R.n_masks(v) - 1))
    if draw(st.integers(0, 9)) < 4:
        kw['boost_error'] = draw(st.booleans())
    if fn != 'make_micro' and not R.is_micro(v) and micro is not True and draw(st.integers(0, 9)) < 3:
        kw['eci'] = draw(st.booleans())
        if kw['eci'] and micro is None and 'version' not in kw:
            pass
    return {'fn': fn, 'content': enc_content(content), 'kw': kw, 'plan': [str(v), lvl, mode]}


@st.composite
def free_single(draw, fns=('make', 'make_qr', 'make_micro')):
    fn = draw(st.sampled_from(fns))
    k = draw(st.integers(0, 9))
    if k < 6:
        content = draw(free_text())
    elif k < 9:
        content = draw(shaped_bytes())
    else:
        content = draw(st.one_of(st.integers(0, 10 ** 30), st.integers(-10 ** 6, 0)))
    kw = {}
    for name, strat, p in (
            ('error', st.sampled_from([None, 'L', 'M', 'Q', 'H', 'l', 'm', 'q', 'h']), 0.3),
            ('version', st.sampled_from(list(R.ALL_VERSIONS[:14]) + ['m1', 'm4', '2', 20, 40]), 0.3),
            ('mode', st.sampled_from([None] + list(MODES) + ['Byte', 'KANJI', 1, 2, 4, 8, 13]), 0.3),
            ('mask', st.one_of(st.integers(0, 7), st.sampled_from(['0', '3'])), 0.3),
            ('encoding', st.sampled_from((None,) + ECI_ENCODINGS + OTHER_ENCODINGS), 0.3),
            ('boost_error', st.booleans(), 0.3)):
        has, val = opt(draw, strat, p)
        if has:
            kw[name] = val
    if fn != 'make_micro':
        has, val = opt(draw, st.booleans(), 0.3)
        if has:
            kw['eci'] = val
    if fn == 'make':
        has, val = opt(draw, st.sampled_from([None, True, False]), 0.4)
        if has:
            kw['micro'] = val
    return {'fn': fn, 'content': enc_content(content), 'kw': kw}


@st.composite
def multi_part(draw, max_parts=5):
    """Multi-part content as tests/test_encoder.py uses it: str/bytes/int items or tuples
    (content, mode constant | None, encoding | None)."""
    nparts = draw(st.integers(2, max_parts))
    parts = []
    same = draw(st.integers(0, 2)) == 0  # adjacent same-mode parts on purpose
    mode0 = draw(st.sampled_from(MODES))
    for _ in range(nparts):
        mode = mode0 if same else draw(st.sampled_from(MODES))
        n = draw(st.sampled_from([1, 1, 2, 2, 3, 4, 5, 7, 8]))
        text = draw(_text(alphabet_for(mode), n))
        form = draw(st.integers(0, 9))
        codec = {'kanji': 'shift_jis', 'hanzi': 'gb2312'}.get(mode, 'iso-8859-1')
        if mode == 'hanzi':
            parts.append((text if form < 7 else text.encode(codec), MODE_CONST['hanzi']))
        elif form < 4:
            parts.append(text)
        elif form < 5:
            parts.append(text.encode(codec))
        elif form < 7:
            parts.append((text, MODE_CONST[mode]))
        elif form < 8:
            parts.append((text, None))
        elif mode == 'byte':
            enc = draw(st.sampled_from(['utf-8', 'iso-8859-15', 'cp1252', None, 'iso-8859-1', 'utf-16-be']))
            parts.append((text, draw(st.sampled_from([None, MODE_CONST['byte']])), enc))
        elif mode == 'numeric' and not text.startswith('0'):
            parts.append(int(text))
        else:
            parts.append((text.encode(codec), MODE_CONST[mode]))
    if draw(st.integers(0, 5)) == 0:
        parts.append(draw(free_text(max_size=6)))
    kw = {}
    has, val = opt(draw, st.sampled_from(['L', 'M', 'Q', 'H']), 0.3)
    if has:
        kw['error'] = val
    if draw(st.integers(0, 9)) < 3:
        kw['version'] = draw(st.sampled_from([2, 3, 5, 8, 10, 12, 27]))
    if draw(st.integers(0, 9)) < 5:
        kw['mask'] = draw(st.integers(0, 7))
    if draw(st.integers(0, 9)) < 3:
        kw['eci'] = draw(st.booleans())
    fn = draw(st.sampled_from(['make', 'make', 'make_qr']))
    if fn == 'make' and draw(st.integers(0, 9)) < 3:
        kw['micro'] = draw(st.sampled_from([None, False]))
    if draw(st.integers(0, 9)) < 2:
        kw['encoding'] = draw(st.sampled_from(['utf-8', 'iso-8859-1', 'cp1252']))
    return {'fn': fn, 'content': enc_content(list(parts)), 'kw': kw}


ENC_ALPHABETS = {
    'cp437': 'abcéäöüÇ░▒▓│┤αßΓπ±', 'iso-8859-2': 'abcĄąŁłŚśŽž', 'iso-8859-5': 'abcЖжИиЯя', 'iso-8859-7': 'abcαβγδΩ',
    'iso-8859-15': 'abc€ŠšŽžŒœ', 'shift_jis': 'abcｱｲｳ点漢字', 'cp1250': 'abc€„…ŚŤŽ', 'cp1251': 'abcЂЃ‚ѓжЯ', 'cp1252': 'abc€‚ƒ„…†‡',
    'cp1256': 'abc€پچژگ', 'utf-16-be': 'abcä€点😀', 'utf-8': 'abcä€点😀', 'ascii': 'abcXYZ~ ', 'big5': 'abc一乙丁七',
    'gb18030': 'abc书读百遍€', 'gbk': 'abc书读百遍', 'euc_kr': 'abc한글가나', 'iso-8859-1': 'abcäöüÿ', 'gb2312': 'abc书读',
    'utf-16': 'abcä', 'koi8-r': 'abcжя', 'utf-32-be': 'abä', 'iso-8859-9': 'abcĞğİış', 'iso-8859-16': 'abcȘșȚț€',
}


@st.composite
def eci_case(draw):
    """Byte-mode text in a non-default encoding with eci drawn (mostly True), QR symbols."""
    enc = draw(st.sampled_from(sorted(ENC_ALPHABETS)))
    text = draw(st.text(alphabet=ENC_ALPHABETS[enc], min_size=1, max_size=30))
    kw = {'encoding': enc if draw(st.integers(0, 3)) else enc.upper(), 'eci': draw(st.integers(0, 4)) > 0}
    fn = draw(st.sampled_from(['make', 'make', 'make_qr']))
    if fn == 'make':
        has, val = opt(draw, st.sampled_from([None, False]), 0.5)
        if has:
            kw['micro'] = val
    for name, strat, p in (('error', st.sampled_from(['L', 'M', 'Q', 'H']), 0.3),
                           ('version', st.sampled_from([1, 2, 3, 5, 9, 10, 11, 27]), 0.3),
                           ('mask', st.integers(0, 7), 0.5), ('boost_error', st.booleans(), 0.3),
                           ('mode', st.sampled_from(['byte', None]), 0.3)):
        has, val = opt(draw, strat, p)
        if has:
            kw[name] = val
    return {'fn': fn, 'content': enc_content(text), 'kw': kw}


@st.composite
def eci_multi_case(draw):
    """2-4 byte-mode parts in different encodings, eci mostly on, total length steered to the
    capacity of a drawn (version, level)."""
    v = draw(st.sampled_from([1, 1, 2, 2, 3, 4, 5, 7, 9, 10, 12]))
    lvl = draw(st.sampled_from(['L', 'M', 'Q', 'H']))
    k = draw(st.integers(2, 4))
    encs = [draw(st.sampled_from(['iso-8859-5', 'iso-8859-7', 'utf-8', 'cp1252', 'iso-8859-1', 'shift_jis',
                                  'iso-8859-15', 'cp1251', None])) for _ in range(k)]
    eci = draw(st.integers(0, 5)) > 0
    cci = R.cci_bits(v, 'byte')
    room = R.data_capacity_bits(v, lvl)
    for e in encs:
        room -= 4 + cci + (12 if (eci and e not in (None, 'iso-8859-1')) else 0)
    total = max(k, room // 8 + draw(st.integers(-2, 2)))
    parts = []
    for i, e in enumerate(encs):
        n = total - (k - 1 - i) if i == k - 1 else draw(st.integers(1, max(1, total - (k - 1 - i))))
        n = max(1, min(n, total - (k - 1 - i)))
        total -= n
        txt = draw(st.text(alphabet='abcxyz019 ,;', min_size=n, max_size=n))
        parts.append((txt, draw(st.sampled_from([None, MODE_CONST['byte']])), e) if e else txt)
    kw = {'eci': eci, 'error': lvl, 'boost_error': draw(st.booleans())}
    if draw(st.integers(0, 2)) == 0:
        kw['version'] = v
    if draw(st.booleans()):
        kw['mask'] = draw(st.integers(0, 7))
    return {'fn': draw(st.sampled_from(['make', 'make_qr'])), 'content': enc_content(parts), 'kw': kw}


@st.composite
def many_segments_case(draw):
    """Many short parts of alternating modes with a requested version: the per-segment overhead
    depends on the version (mode indicator and character count indicator widths)."""
    k = draw(st.integers(3, 14))
    pair = draw(st.sampled_from([('numeric', 'alphanumeric'), ('numeric', 'byte'), ('alphanumeric', 'byte'), ('kanji', 'numeric'),
                                 ('byte', 'kanji')]))
    parts = []
    for i in range(k):
        m = pair[i % 2]
        n = draw(st.integers(1, 3))
        parts.append(draw(_text(alphabet_for(m) if m != 'byte' else 'abcxyz,;', n)))
    kw = {'version': draw(st.sampled_from([1, 1, 2, 3, 9, 10, 26, 27, 'M4', 'M3']))}
    if draw(st.booleans()):
        kw['error'] = draw(st.sampled_from(['L', 'M', 'Q', 'H']))
    if draw(st.booleans()):
        kw['boost_error'] = draw(st.booleans())
    if draw(st.booleans()):
        kw['mask'] = draw(st.integers(0, 3))
    return {'fn': 'make', 'content': enc_content(parts), 'kw': kw}


CONFUSABLE = {
    'numeric': ['\n', ' ', '_', '+', '-', '\t', '\r', '\x0c', '\x0b', '\x1c', '\x85', '\xa0', '\u0663', '\uff11', '.', 'e', '\u00b2'],
    'alphanumeric': ['a', 'z', ',', '\n', ' \n', '_', '\u00c4', '\uff21', '\t', ';', '#'],
    'kanji': ['\uff71', 'a', '1', ' ', '\n', '\u00e9', '\u4e66'],
    'byte': ['\n', '\x00'],
}


@st.composite
def lookalike_case(draw):
    """Mode-pure content with one character that only *looks* as if it belonged to the class
    (whitespace accepted by int(), underscore, sign, other scripts' digits, lower case ...)."""
    mode = draw(st.sampled_from(['numeric', 'numeric', 'alphanumeric', 'kanji']))
    n = draw(st.integers(1, 9))
    text = draw(_text(alphabet_for(mode), n))
    extra = draw(st.sampled_from(CONFUSABLE[mode]))
    pos = draw(st.sampled_from([0, len(text), len(text), draw(st.integers(0, len(text)))]))
    text = text[:pos] + extra + text[pos:]
    content = text
    if draw(st.integers(0, 3)) == 0:
        try:
            content = text.encode('iso-8859-1')
        except UnicodeError:
            pass
    kw = {}
    if draw(st.integers(0, 3)) == 0:
        kw['mode'] = mode
    if draw(st.booleans()):
        kw['micro'] = draw(st.sampled_from([None, False]))
    if draw(st.booleans()):
        kw['mask'] = draw(st.integers(0, 3))
    return {'fn': 'make', 'content': enc_content(content), 'kw': kw}


@st.composite
def crossing_segments_case(draw):
    """Very many one-character parts of alternating modes with a requested version just above a change of
    the character count indicator widths (10, 27): the content fits the version below but may overflow
    the requested one."""
    v = draw(st.sampled_from([10, 10, 27]))
    lvl = draw(st.sampled_from(['L', 'M', 'Q', 'H']))
    pair = draw(st.sampled_from([('byte', 'numeric'), ('alphanumeric', 'numeric'), ('byte', 'alphanumeric')]))
    per_pair = sum(segment_bits(v, m, 1) for m in pair)
    pairs = R.data_capacity_bits(v, lvl) // per_pair + draw(st.integers(-2, 1))
    chars = {'byte': 'a', 'numeric': '1', 'alphanumeric': 'A'}
    parts = [chars[pair[i % 2]] for i in range(max(2, 2 * pairs))]
    kw = {'version': v, 'error': lvl, 'boost_error': False, 'mask': draw(st.integers(0, 7))}
    if draw(st.booleans()):
        kw['micro'] = False
    return {'fn': draw(st.sampled_from(['make', 'make_qr'])) if 'micro' not in kw else 'make', 'content': enc_content(parts), 'kw': kw}


def make_cases(big=0.06, multi=True):
    opts = [constructive_single(big=big)] * 6 + [free_single()] * 3 + [eci_case()]
    opts += [lookalike_case()]
    if multi:
        opts += [eci_multi_case(), many_segments_case()]
        if big >= 0.05:
            opts += [crossing_segments_case()]
    if multi:
        opts += [multi_part()] * 2
    return st.one_of(*opts)
