def selftest():
    pass
