"""Independent readers for the raster / text formats segno writes (scratch)."""
import re
import struct
import zlib


class FormatError(Exception):
    pass


class Unsupported(FormatError):
    """A construct which may be valid in the format but is outside the subset this reader interprets
    (a limitation of the reader: reported as harness problem, never as a violation)."""


# ---------------------------------------------------------------- PNG
def read_png(data):
    """Returns (width, height, pixels) with pixels[y][x] = (r, g, b, a); info dict."""
    if data[:8] != b'\x89PNG\r\n\x1a\n':
        raise FormatError('bad PNG signature')
    pos = 8
    chunks = []
    while pos < len(data):
        if pos + 8 > len(data):
            raise FormatError('truncated chunk header')
        ln, typ = struct.unpack('>I4s', data[pos:pos + 8])
        body = data[pos + 8:pos + 8 + ln]
        if len(body) != ln or pos + 12 + ln > len(data):
            raise FormatError('truncated chunk %r' % typ)
        crc, = struct.unpack('>I', data[pos + 8 + ln:pos + 12 + ln])
        if zlib.crc32(typ + body) & 0xffffffff != crc:
            raise FormatError('bad CRC in %r' % typ)
        chunks.append((typ, body))
        pos += 12 + ln
    if not chunks or chunks[0][0] != b'IHDR' or chunks[-1][0] != b'IEND' or chunks[-1][1]:
        raise FormatError('IHDR/IEND misplaced')
    if [t for t, b in chunks].count(b'IEND') != 1:
        raise FormatError('several IEND')
    if len(chunks[0][1]) != 13:
        raise FormatError('IHDR length')
    w, h, depth, ctype, comp, flt, inter = struct.unpack('>2I5B', chunks[0][1])
    if comp or flt:
        raise FormatError('invalid compression / filter method')
    if inter:
        raise Unsupported('interlaced PNG')
    if w == 0 or h == 0:
        raise FormatError('zero dimension')
    allowed = {0: (1, 2, 4, 8, 16), 2: (8, 16), 3: (1, 2, 4, 8), 4: (8, 16), 6: (8, 16)}
    if ctype not in allowed or depth not in allowed[ctype]:
        raise FormatError('bad colour type / depth %r/%r' % (ctype, depth))
    plte = None
    trns = None
    phys = None
    idat = b''
    seen_idat = False
    idat_done = False
    for typ, body in chunks[1:-1]:
        if typ == b'IDAT':
            if idat_done:
                raise FormatError('IDAT chunks not consecutive')
            seen_idat = True
            idat += body
            continue
        if seen_idat:
            idat_done = True
        if typ == b'PLTE':
            if seen_idat or plte is not None or len(body) % 3 or not 3 <= len(body) <= 768:
                raise FormatError('bad PLTE')
            plte = [tuple(body[i:i + 3]) for i in range(0, len(body), 3)]
        elif typ == b'tRNS':
            if seen_idat or trns is not None:
                raise FormatError('bad tRNS position')
            if ctype == 3 and plte is None:
                raise FormatError('tRNS before PLTE')
            trns = body
        elif typ == b'pHYs':
            if seen_idat or len(body) != 9:
                raise FormatError('bad pHYs')
            phys = struct.unpack('>IIB', body)
        elif not (typ[0] & 0x20):
            raise FormatError('unknown critical chunk %r' % typ)
    if ctype == 3:
        if plte is None:
            raise FormatError('missing PLTE')
        if len(plte) > (1 << depth):
            raise FormatError('palette larger than bit depth allows')
        if trns is not None and len(trns) > len(plte):
            raise FormatError('tRNS longer than palette')
    elif ctype in (0, 4) and plte is not None:
        raise FormatError('PLTE in greyscale image')
    if ctype in (4, 6) and trns is not None:
        raise FormatError('tRNS with alpha colour type')
    if ctype == 0 and trns is not None and len(trns) != 2:
        raise FormatError('tRNS length for greyscale')
    if ctype == 2 and trns is not None and len(trns) != 6:
        raise FormatError('tRNS length for RGB')
    try:
        raw = zlib.decompress(idat)
    except zlib.error as ex:
        raise FormatError('IDAT: %s' % ex)
    channels = {0: 1, 2: 3, 3: 1, 4: 2, 6: 4}[ctype]
    bpp_bits = channels * depth
    stride = (w * bpp_bits + 7) // 8
    if len(raw) != (stride + 1) * h:
        raise FormatError('IDAT size %d != %d' % (len(raw), (stride + 1) * h))
    bpp = max(1, bpp_bits // 8)
    prev = bytearray(stride)
    rows = []
    p = 0
    for y in range(h):
        ft = raw[p]
        line = bytearray(raw[p + 1:p + 1 + stride])
        p += stride + 1
        if ft == 0:
            pass
        elif ft == 1:
            for i in range(bpp, stride):
                line[i] = (line[i] + line[i - bpp]) & 0xff
        elif ft == 2:
            for i in range(stride):
                line[i] = (line[i] + prev[i]) & 0xff
        elif ft == 3:
            for i in range(stride):
                a = line[i - bpp] if i >= bpp else 0
                line[i] = (line[i] + ((a + prev[i]) >> 1)) & 0xff
        elif ft == 4:
            for i in range(stride):
                a = line[i - bpp] if i >= bpp else 0
                b = prev[i]
                c = prev[i - bpp] if i >= bpp else 0
                pa, pb, pc = abs(b - c), abs(a - c), abs(a + b - 2 * c)
                pr = a if pa <= pb and pa <= pc else (b if pb <= pc else c)
                line[i] = (line[i] + pr) & 0xff
        else:
            raise FormatError('bad filter type %d' % ft)
        rows.append(line)
        prev = line
    maxv = (1 << depth) - 1
    pixels = []
    trns_grey = struct.unpack('>H', trns)[0] if (ctype == 0 and trns is not None) else None
    trns_rgb = struct.unpack('>3H', trns) if (ctype == 2 and trns is not None) else None
    for line in rows:
        samples = []
        if depth == 8:
            samples = list(line)
        elif depth == 16:
            samples = [(line[i] << 8) | line[i + 1] for i in range(0, len(line), 2)]
        else:
            per = 8 // depth
            for byte in line:
                for k in range(per):
                    samples.append((byte >> (8 - depth * (k + 1))) & maxv)
            # padding bits of the last byte
            samples = samples[:w * channels]
        row = []
        for x in range(w):
            s = samples[x * channels:(x + 1) * channels]
            if ctype == 0:
                g = s[0]
                a = 0 if (trns_grey is not None and g == trns_grey) else 255
                g8 = g * 255 // maxv
                row.append((g8, g8, g8, a))
            elif ctype == 3:
                if s[0] >= len(plte):
                    raise FormatError('palette index %d out of range' % s[0])
                a = trns[s[0]] if (trns is not None and s[0] < len(trns)) else 255
                row.append(plte[s[0]] + (a,))
            elif ctype == 2:
                a = 0 if (trns_rgb is not None and tuple(s) == trns_rgb) else 255
                row.append(tuple(v * 255 // maxv for v in s) + (a,))
            elif ctype == 4:
                g8 = s[0] * 255 // maxv
                row.append((g8, g8, g8, s[1] * 255 // maxv))
            else:
                row.append(tuple(v * 255 // maxv for v in s))
        pixels.append(row)
    return w, h, pixels, dict(depth=depth, ctype=ctype, plte=plte, trns=trns, phys=phys)


# ---------------------------------------------------------------- Netpbm
def _pnm_tokens(data, n, pos):
    """Reads n whitespace separated tokens honouring # comments; returns tokens and the
    position of the single whitespace char following the last token."""
    toks = []
    while len(toks) < n:
        while pos < len(data) and data[pos:pos + 1].isspace():
            pos += 1
        if pos >= len(data):
            raise FormatError('truncated header')
        if data[pos:pos + 1] == b'#':
            while pos < len(data) and data[pos:pos + 1] != b'\n':
                pos += 1
            continue
        start = pos
        while pos < len(data) and not data[pos:pos + 1].isspace() and data[pos:pos + 1] != b'#':
            pos += 1
        toks.append(data[start:pos])
    return toks, pos


def read_pbm(data):
    """Returns (w, h, rows) rows[y][x] in {0,1} (1 = black)."""
    magic = data[:2]
    if magic not in (b'P1', b'P4'):
        raise FormatError('bad PBM magic')
    toks, pos = _pnm_tokens(data, 2, 2)
    try:
        w, h = int(toks[0]), int(toks[1])
    except ValueError:
        raise FormatError('bad PBM dimension')
    if magic == b'P4':
        if not data[pos:pos + 1].isspace():
            raise FormatError('missing whitespace after header')
        body = data[pos + 1:]
        stride = (w + 7) // 8
        if len(body) != stride * h:
            raise FormatError('P4 raster size %d != %d' % (len(body), stride * h))
        rows = []
        for y in range(h):
            line = body[y * stride:(y + 1) * stride]
            rows.append([(line[x >> 3] >> (7 - (x & 7))) & 1 for x in range(w)])
        return w, h, rows
    body = data[pos:]
    body = re.sub(rb'#[^\n]*', b'', body)
    bits = [c - 48 for c in body if not bytes((c,)).isspace()]
    if any(b not in (0, 1) for b in bits):
        raise FormatError('P1 raster contains non-bits')
    if len(bits) != w * h:
        raise FormatError('P1 raster size %d != %d' % (len(bits), w * h))
    if any(len(ln) > 70 for ln in data.split(b'\n')):
        pass  # the 70-character recommendation is not enforced
    return w, h, [bits[y * w:(y + 1) * w] for y in range(h)]


def read_ppm(data):
    if data[:2] != b'P6':
        raise FormatError('bad PPM magic')
    toks, pos = _pnm_tokens(data, 3, 2)
    w, h, maxval = (int(t) for t in toks)
    if not 0 < maxval < 65536:
        raise FormatError('bad maxval')
    if not data[pos:pos + 1].isspace():
        raise FormatError('missing whitespace after header')
    body = data[pos + 1:]
    bps = 1 if maxval < 256 else 2
    if len(body) != w * h * 3 * bps:
        raise FormatError('PPM raster size %d != %d' % (len(body), w * h * 3 * bps))
    rows = []
    for y in range(h):
        row = []
        for x in range(w):
            o = (y * w + x) * 3 * bps
            px = tuple(int.from_bytes(body[o + i * bps:o + (i + 1) * bps], 'big') for i in range(3))
            if any(v > maxval for v in px):
                raise FormatError('sample above maxval')
            row.append(px)
        rows.append(row)
    return w, h, maxval, rows


def read_pam(data):
    if not data.startswith(b'P7\n'):
        raise FormatError('bad PAM magic')
    end = data.find(b'ENDHDR\n')
    if end < 0:
        raise FormatError('no ENDHDR')
    hdr = {}
    for ln in data[3:end].split(b'\n'):
        ln = ln.strip()
        if not ln or ln.startswith(b'#'):
            continue
        k, _, v = ln.partition(b' ')
        if k == b'TUPLTYPE' and k in hdr:
            hdr[k] += b' ' + v.strip()
        else:
            if k in hdr:
                raise FormatError('duplicate header %r' % k)
            hdr[k] = v.strip()
    try:
        w, h, depth, maxval = (int(hdr[k]) for k in (b'WIDTH', b'HEIGHT', b'DEPTH', b'MAXVAL'))
    except (KeyError, ValueError):
        raise FormatError('incomplete PAM header')
    tt = hdr.get(b'TUPLTYPE', b'').decode('ascii')
    need = {'BLACKANDWHITE': 1, 'GRAYSCALE': 1, 'RGB': 3, 'BLACKANDWHITE_ALPHA': 2,
            'GRAYSCALE_ALPHA': 2, 'RGB_ALPHA': 4}
    if tt not in need or need[tt] != depth:
        raise FormatError('TUPLTYPE %r does not match DEPTH %d' % (tt, depth))
    if not 0 < maxval < 65536:
        raise FormatError('bad MAXVAL')
    if tt.startswith('BLACKANDWHITE') and maxval != 1:
        raise FormatError('BLACKANDWHITE requires MAXVAL 1')
    body = data[end + 7:]
    bps = 1 if maxval < 256 else 2
    if len(body) != w * h * depth * bps:
        raise FormatError('PAM raster size %d != %d' % (len(body), w * h * depth * bps))
    rows = []
    for y in range(h):
        row = []
        for x in range(w):
            o = (y * w + x) * depth * bps
            t = tuple(int.from_bytes(body[o + i * bps:o + (i + 1) * bps], 'big') for i in range(depth))
            if any(v > maxval for v in t):
                raise FormatError('sample above MAXVAL')
            row.append(t)
        rows.append(row)
    return w, h, depth, maxval, tt, rows


def pam_rgba(tt, maxval, t):
    """Normalises a PAM tuple to 8-bit (r,g,b,a)."""
    def sc(v):
        return v * 255 // maxval if maxval != 255 else v
    if tt in ('BLACKANDWHITE', 'GRAYSCALE'):
        return (sc(t[0]),) * 3 + (255,)
    if tt in ('BLACKANDWHITE_ALPHA', 'GRAYSCALE_ALPHA'):
        return (sc(t[0]),) * 3 + (sc(t[1]),)
    if tt == 'RGB':
        return tuple(sc(v) for v in t) + (255,)
    return tuple(sc(v) for v in t)


# ---------------------------------------------------------------- XBM / XPM
def read_xbm(text):
    m = re.match(r'#define (\w+)_width (\d+)\n#define (\w+)_height (\d+)\n'
                 r'static (?:unsigned )?char (\w+)_bits\[\] = \{\n(.*)\};\n\Z', text, re.S)
    if not m:
        raise FormatError('XBM structure')
    if not (m.group(1) == m.group(3) == m.group(5)):
        raise FormatError('XBM names differ')
    w, h = int(m.group(2)), int(m.group(4))
    toks = [t.strip() for t in m.group(6).replace('\n', ' ').split(',')]
    if toks and toks[-1] == '':
        toks.pop()
    try:
        vals = [int(t, 16) for t in toks]
    except ValueError:
        raise FormatError('XBM byte literal')
    if any(not re.fullmatch(r'0x[0-9a-fA-F]{2}', t) for t in toks):
        raise FormatError('XBM byte literal')
    stride = (w + 7) // 8
    if len(vals) != stride * h:
        raise FormatError('XBM has %d bytes, expected %d' % (len(vals), stride * h))
    rows = []
    for y in range(h):
        line = vals[y * stride:(y + 1) * stride]
        rows.append([(line[x >> 3] >> (x & 7)) & 1 for x in range(w)])
    return m.group(1), w, h, rows


def read_xpm(text):
    m = re.match(r'/\* XPM \*/\nstatic char \*\s*(\w+)\[\] = \{\n(.*)\};\n\Z', text, re.S)
    if not m:
        raise FormatError('XPM structure')
    body = m.group(2)
    lines = body.split('\n')
    if lines[-1] != '':
        raise FormatError('XPM last line')
    lines = lines[:-1]
    strs = []
    for i, ln in enumerate(lines):
        last = i == len(lines) - 1
        mm = re.fullmatch(r'"([^"]*)"(,?)', ln)
        if not mm:
            raise FormatError('XPM string line %d' % i)
        if (mm.group(2) == ',') == last:
            raise FormatError('XPM comma placement line %d' % i)
        strs.append(mm.group(1))
    try:
        w, h, ncol, cpp = (int(t) for t in strs[0].split())
    except ValueError:
        raise FormatError('XPM values')
    if cpp != 1:
        raise Unsupported('XPM cpp != 1 unsupported')
    colors = {}
    for s in strs[1:1 + ncol]:
        mm = re.fullmatch(r'(.)\s+c\s+(\S+)', s)
        if not mm:
            raise FormatError('XPM colour line %r' % s)
        colors[mm.group(1)] = mm.group(2)
    if len(colors) != ncol:
        raise FormatError('XPM duplicate colour keys')
    px = strs[1 + ncol:]
    if len(px) != h or any(len(r) != w for r in px):
        raise FormatError('XPM pixel dimensions')
    rows = []
    for r in px:
        for ch in r:
            if ch not in colors:
                raise FormatError('XPM undefined pixel char')
        rows.append([colors[ch] for ch in r])
    return m.group(1), w, h, rows


# ---------------------------------------------------------------- text
def read_txt(text, dark='1', light='0'):
    if not text.endswith('\n'):
        raise FormatError('TXT missing final newline')
    lines = text[:-1].split('\n')
    rows = []
    for ln in lines:
        row = []
        i = 0
        while i < len(ln):
            if dark and ln.startswith(dark, i) and not (light and len(light) > len(dark) and ln.startswith(light, i)):
                row.append(1)
                i += len(dark)
            elif light and ln.startswith(light, i):
                row.append(0)
                i += len(light)
            else:
                raise FormatError('TXT unexpected char')
        rows.append(row)
    return rows


_ANSI = re.compile(r'\x1b\[(7|49)m((?:  )+)\x1b\[0m')


def read_ansi(text):
    if not text.endswith('\n'):
        raise FormatError('ANSI missing newline')
    rows = []
    for ln in text[:-1].split('\n'):
        pos = 0
        row = []
        while pos < len(ln):
            m = _ANSI.match(ln, pos)
            if not m:
                raise FormatError('ANSI unexpected sequence at %d' % pos)
            # "7" = reverse video = light cell on a dark terminal; segno maps bit 0 -> 7, 1 -> 49
            row += [0 if m.group(1) == '7' else 1] * (len(m.group(2)) // 2)
            pos = m.end()
        rows.append(row)
    return rows


def read_compact(text):
    if not text.endswith('\n'):
        raise FormatError('compact missing newline')
    rows = []
    for ln in text[:-1].split('\n'):
        top, bot = [], []
        for ch in ln:
            try:
                t, b = {' ': (1, 1), '▀': (0, 1), '▄': (1, 0), '█': (0, 0)}[ch]
            except KeyError:
                raise FormatError('compact unexpected char %r' % ch)
            top.append(t)
            bot.append(b)
        rows.append(top)
        rows.append(bot)
    return rows


# ---------------------------------------------------------------- self test on hand-written files
def selftest():
    import struct as _s

    def chunk(t, b):
        return _s.pack('>I', len(b)) + t + b + _s.pack('>I', zlib.crc32(t + b) & 0xffffffff)
    # 3x2 greyscale, depth 1, rows 101 / 010 with filter 0 and filter 2 (up)
    raw = b'\x00' + bytes([0b10100000]) + b'\x02' + bytes([(0b01000000 - 0b10100000) & 0xff])
    png = b'\x89PNG\r\n\x1a\n' + chunk(b'IHDR', _s.pack('>2I5B', 3, 2, 1, 0, 0, 0, 0)) + chunk(b'IDAT', zlib.compress(raw)) + chunk(b'IEND', b'')
    w, h, px, info = read_png(png)
    assert (w, h) == (3, 2) and [p[0] for p in px[0]] == [255, 0, 255] and [p[0] for p in px[1]] == [0, 255, 0]
    # palette image, depth 2, with tRNS
    raw = b'\x00' + bytes([0b00011011])
    png = (b'\x89PNG\r\n\x1a\n' + chunk(b'IHDR', _s.pack('>2I5B', 4, 1, 2, 3, 0, 0, 0)) + chunk(b'PLTE', bytes([1, 2, 3, 4, 5, 6, 7, 8, 9, 10, 11, 12]))
           + chunk(b'tRNS', bytes([0, 128])) + chunk(b'IDAT', zlib.compress(raw)) + chunk(b'IEND', b''))
    w, h, px, info = read_png(png)
    assert px[0] == [(1, 2, 3, 0), (4, 5, 6, 128), (7, 8, 9, 255), (10, 11, 12, 255)]
    for bad in (png[:-5] + b'\x00' + png[-4:], png.replace(b'PLTE', b'PLTX')):
        try:
            read_png(bad)
            raise AssertionError('corrupt PNG accepted')
        except FormatError:
            pass
    assert read_pbm(b'P4\n# c\n10 2\n' + bytes([0xff, 0xc0, 0x00, 0x00]))[2] == [[1] * 10, [0] * 10]
    assert read_pbm(b'P1\n3 2\n101\n010\n')[2] == [[1, 0, 1], [0, 1, 0]]
    try:
        read_pbm(b'P4\n10 2\n' + bytes(3))
        raise AssertionError('short PBM accepted')
    except FormatError:
        pass
    assert read_ppm(b'P6 # c\n2 1 255\n' + bytes([1, 2, 3, 4, 5, 6]))[3] == [[(1, 2, 3), (4, 5, 6)]]
    pam = b'P7\nWIDTH 2\nHEIGHT 1\nDEPTH 4\nMAXVAL 255\nTUPLTYPE RGB_ALPHA\nENDHDR\n' + bytes([1, 2, 3, 4, 5, 6, 7, 8])
    w, h, depth, maxval, tt, rows = read_pam(pam)
    assert rows == [[(1, 2, 3, 4), (5, 6, 7, 8)]] and pam_rgba(tt, maxval, rows[0][0]) == (1, 2, 3, 4)
    assert pam_rgba('BLACKANDWHITE', 1, (1,)) == (255, 255, 255, 255)
    xbm = '#define i_width 9\n#define i_height 1\nstatic unsigned char i_bits[] = {\n    0x01, 0x01\n};\n'
    assert read_xbm(xbm)[3] == [[1, 0, 0, 0, 0, 0, 0, 0, 1]]
    xpm = '/* XPM */\nstatic char *img[] = {\n"2 2 2 1",\n"  c #ffffff",\n"X c #000000",\n"X ",\n" X"\n};\n'
    assert read_xpm(xpm)[3] == [['#000000', '#ffffff'], ['#ffffff', '#000000']]
    assert read_txt('10\n01\n') == [[1, 0], [0, 1]]
    assert read_ansi('\x1b[7m  \x1b[0m\x1b[49m    \x1b[0m\n') == [[0, 1, 1]]
    assert read_compact(' ▀\n') == [[1, 0], [1, 1]]
