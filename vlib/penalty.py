"""Independent implementation of ISO/IEC 18004 7.8.3 (evaluation of data masking results)."""
import re

from . import qrref as R

_RUNS = re.compile(r'0{5,}|1{5,}')
_N3 = re.compile(r'(?=1011101)')


def candidate(matrix, v, used_mask, k):
    """matrix emitted with ``used_mask`` -> matrix masked with ``k``; the modules which are filled
    after masking (format information incl. the dark module, version information) are light."""
    n = len(matrix)
    cls, _ = R.function_map(v)
    f_old = R.mask_fn(v, used_mask)
    f_new = R.mask_fn(v, k)
    m = [list(r) for r in matrix]
    for r in range(n):
        crow = cls[r]
        mrow = m[r]
        for c in range(n):
            t = crow[c]
            if t == R.DATA:
                if f_old(r, c) != f_new(r, c):
                    mrow[c] ^= 1
            elif t in (R.FORMAT, R.VERSION, R.DARKMODULE):
                mrow[c] = 0
    return m


def penalty(m):
    """Returns (n1, n2, n3, n4, n4_is_boundary)."""
    n = len(m)
    rows = [''.join('1' if b else '0' for b in r) for r in m]
    cols = [''.join(rows[r][c] for r in range(n)) for c in range(n)]
    n1 = 0
    n3 = 0
    for ln in rows + cols:
        for mo in _RUNS.finditer(ln):
            n1 += 3 + (mo.end() - mo.start() - 5)
        for mo in _N3.finditer(ln):
            i = mo.start()
            before = ln[max(0, i - 4):i]
            after = ln[i + 7:i + 11]
            # modules beyond the symbol edge count as light (quiet zone)
            if '1' not in before or '1' not in after:
                n3 += 40
    n2 = 0
    for r in range(n - 1):
        a, b = rows[r], rows[r + 1]
        for c in range(n - 1):
            if a[c] == a[c + 1] == b[c] == b[c + 1]:
                n2 += 3
    dark = sum(ln.count('1') for ln in rows)
    total = n * n
    dev = abs(20 * dark - 10 * total)
    n4 = 10 * (dev // total)
    return n1, n2, n3, n4, (dev % total == 0 and dev != 0)


def micro_score(m):
    n = len(m)
    s1 = sum(m[r][n - 1] for r in range(1, n))
    s2 = sum(m[n - 1][c] for c in range(1, n))
    return s1 * 16 + s2 if s1 <= s2 else s2 * 16 + s1


def best_masks(matrix, v, used):
    """Returns (set of acceptable masks, scores).  More than one mask is acceptable only when a
    candidate's dark ratio lies exactly on a 5% step (N4 is then taken as k or k-1)."""
    micro = R.is_micro(v)
    scores = []
    alt = []
    for k in range(R.n_masks(v)):
        cm = candidate(matrix, v, used, k)
        if micro:
            s = micro_score(cm)
            scores.append(s)
            alt.append(s)
        else:
            n1, n2, n3, n4, edge = penalty(cm)
            scores.append(n1 + n2 + n3 + n4)
            alt.append(n1 + n2 + n3 + n4 - (10 if edge else 0))
    if micro:
        return {scores.index(max(scores))}, scores
    ok = {scores.index(min(scores))}
    if alt != scores:
        # any consistent choice between the two readings at the exact boundaries
        import itertools
        idx = [i for i in range(len(scores)) if alt[i] != scores[i]]
        for choice in itertools.product((0, 1), repeat=len(idx)):
            s = list(scores)
            for i, c in zip(idx, choice):
                if c:
                    s[i] = alt[i]
            ok.add(s.index(min(s)))
    return ok, scores
