"""atheris fuzz target: python -m vlib.fuzz_target <property module> <result file> <runs> [libFuzzer args] <corpus dir>

Runs in its own process (libFuzzer ends the process itself, atexit handlers do not run): the statistics
are written to the result file every 250 executions and when the requested number of runs is reached.
segno keeps no state between calls that the oracle depends on (that is property C15); nothing has to be
reset at the top of an iteration.  A deviation does not stop the campaign: the first case per signature
is kept and the search continues behind it.
"""
import importlib
import os
import pickle
import sys


def main():
    modname, result, runs = sys.argv[1], sys.argv[2], int(sys.argv[3])
    modname, _, decoder = modname.partition(':')
    rest = sys.argv[4:]
    try:
        import atheris
    except Exception as ex:  # noqa: BLE001
        print('atheris-unavailable: %r' % (ex,))
        return 0
    repo = os.path.abspath(os.environ.get('VERIF_REPO', '/repo'))
    with atheris.instrument_imports(include=['segno'], enable_loader_override=False):
        import segno
    if not os.path.abspath(segno.__file__).startswith(repo + os.sep):
        print('segno imported from %s, expected %s' % (segno.__file__, repo))
        return 2
    from vlib import runner, fuzz
    mod = importlib.import_module(modname)
    known = {e['signature'] for e in runner.load_known(mod.PROPERTY) if e.get('status') == 'known'}
    stats = runner.Stats(known)
    seen = set()
    state = {'n': 0}

    def dump():
        tmp = result + '.tmp'
        with open(tmp, 'wb') as f:
            pickle.dump(stats.dump(), f)
        os.replace(tmp, result)

    decode = fuzz.DECODERS[decoder or 'make'][0]

    def one(data):
        case = decode(data)
        try:
            out = runner.evaluate(mod, case)
        except runner.HarnessError as ex:
            if len(stats.harness_errors) < 3:
                stats.harness_errors.append('fuzz target: %s\ncase: %r' % (str(ex)[-900:], case))
            return
        for d in stats.record('coverage-guided', case, out):
            if d.sig not in seen:
                seen.add(d.sig)
                stats.failures.append((d.sig, d.msg, case))
        state['n'] += 1
        if state['n'] % 250 == 0 or state['n'] >= runs:
            dump()

    atheris.Setup([sys.argv[0]] + rest[:-1] + ['-runs=%d' % runs, rest[-1]], one)
    atheris.Fuzz()
    return 0


if __name__ == '__main__':
    sys.exit(main())
