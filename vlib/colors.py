"""Colour model independent of segno: strategies for colour specifications and the RGBA value a
specification denotes."""
from hypothesis import strategies as st

# CSS basic colour keywords + orange, typed in from the CSS Color Module
NAMED = {
    'black': (0, 0, 0), 'silver': (192, 192, 192), 'gray': (128, 128, 128), 'white': (255, 255, 255),
    'maroon': (128, 0, 0), 'red': (255, 0, 0), 'purple': (128, 0, 128), 'fuchsia': (255, 0, 255),
    'green': (0, 128, 0), 'lime': (0, 255, 0), 'olive': (128, 128, 0), 'yellow': (255, 255, 0),
    'navy': (0, 0, 128), 'blue': (0, 0, 255), 'teal': (0, 128, 128), 'aqua': (0, 255, 255),
    'orange': (255, 165, 0),
    # a few extended keywords (CSS Color Module Level 3)
    'aliceblue': (240, 248, 255), 'tan': (210, 180, 140), 'darkslategrey': (47, 79, 79), 'hotpink': (255, 105, 180),
    'cornflowerblue': (100, 149, 237), 'yellowgreen': (154, 205, 50), 'antiquewhite': (250, 235, 215),
    'aquamarine': (127, 255, 212), 'azure': (240, 255, 255), 'beige': (245, 245, 220),
}


def rgba_of(spec):
    """RGBA (0..255 each) denoted by a JSON colour spec; None for transparent.
    Raises ValueError for a malformed specification."""
    if spec is None:
        return None
    if isinstance(spec, (list, tuple)):
        if len(spec) not in (3, 4) or any(isinstance(v, bool) for v in spec):
            raise ValueError(spec)
        if any(not isinstance(v, int) or not 0 <= v <= 255 for v in spec[:3]):
            raise ValueError(spec)
        if len(spec) == 4:
            a = spec[3]
            if isinstance(a, float):
                if not 0.0 <= a <= 1.0:
                    raise ValueError(spec)
                a = int(round(a * 255.0))
            elif not 0 <= a <= 255:
                raise ValueError(spec)
            return tuple(spec[:3]) + (a,)
        return tuple(spec) + (255,)
    if not isinstance(spec, str):
        raise ValueError(spec)
    low = spec.lower()
    if low in NAMED:
        return NAMED[low] + (255,)
    if not spec.startswith('#'):
        raise ValueError(spec)
    hx = spec[1:]
    if len(hx) in (3, 4):
        hx = ''.join(c * 2 for c in hx)
    if len(hx) not in (6, 8):
        raise ValueError(spec)
    try:
        vals = tuple(int(hx[i:i + 2], 16) for i in range(0, len(hx), 2))
    except ValueError:
        raise ValueError(spec)
    if any(c in '+- _' for c in hx):
        raise ValueError(spec)
    return vals if len(vals) == 4 else vals + (255,)


def to_arg(spec):
    """JSON spec -> argument for segno (lists become tuples)."""
    return tuple(spec) if isinstance(spec, list) else spec


_CH = st.one_of(st.sampled_from([0, 1, 2, 17, 127, 128, 254, 255]), st.integers(0, 255))


@st.composite
def opaque(draw, none_ok=False):
    k = draw(st.integers(0, 9))
    if none_ok and k == 0:
        return None
    if k < 3:
        n = draw(st.sampled_from(sorted(NAMED)))
        return draw(st.sampled_from([n, n.upper(), n.title()]))
    if k < 5:
        c = [draw(st.integers(0, 15)) for _ in range(3)]
        return ('#%x%x%x' if draw(st.booleans()) else '#%X%X%X') % tuple(c)
    if k < 8:
        c = tuple(draw(_CH) for _ in range(3))
        return ('#%02x%02x%02x' if draw(st.booleans()) else '#%02X%02X%02X') % c
    return [draw(_CH) for _ in range(3)]


@st.composite
def with_alpha(draw, none_ok=True):
    """Colour specification which may carry an alpha channel (PNG, SVG)."""
    k = draw(st.integers(0, 9))
    if k < 6:
        return draw(opaque(none_ok=none_ok))
    a = draw(st.one_of(st.sampled_from([0, 1, 2, 16, 32, 64, 127, 128, 254, 255]), st.integers(0, 255)))
    c = tuple(draw(_CH) for _ in range(3))
    if k < 8:
        return '#%02x%02x%02x%02x' % (c + (a,))
    if k < 9:
        d = [draw(st.integers(0, 15)) for _ in range(4)]
        return '#%x%x%x%x' % tuple(d)
    if draw(st.integers(0, 2)) == 0:
        # alpha as float 0.0 .. 1.0 (multiples of 1/255 and a few other values)
        return list(c) + [draw(st.sampled_from([0.0, 1.0, 0.5, 0.25, 0.8, 0.2, 128 / 255, 1 / 255]))]
    return list(c) + [a]
