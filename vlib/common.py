"""Shared helpers: JSON <-> argument conversion, the text->bytes policy model of the statement
of C01, guarded calls into segno, decoding with the reference model."""
import codecs
import os
import traceback

from . import qrref as R
from .runner import Dev

REPO = os.path.abspath(os.environ.get('VERIF_REPO', '/repo'))

MODE_CONST = {'numeric': 1, 'alphanumeric': 2, 'byte': 4, 'kanji': 8, 'hanzi': 13}
CONST_MODE = {v: k for k, v in MODE_CONST.items()}


def stable_hash(*key):
    """32 bit hash of the key, independent of PYTHONHASHSEED."""
    import hashlib
    return int.from_bytes(hashlib.sha1(repr(key).encode('utf-8')).digest()[:4], 'big')


# ------------------------------------------------------------------ content codec
def enc_content(c):
    """Python content -> JSON value."""
    if isinstance(c, bool):
        raise TypeError('bool content not generated')
    if isinstance(c, str):
        return {'t': 'str', 'v': c}
    if isinstance(c, (bytes, bytearray)):
        return {'t': 'bytes', 'v': bytes(c).hex()}
    if isinstance(c, int):
        return {'t': 'int', 'v': str(c)}
    if isinstance(c, tuple):
        return {'t': 'tuple', 'v': [enc_content(c[0])] + list(c[1:])}
    if isinstance(c, list):
        return {'t': 'list', 'v': [enc_content(x) for x in c]}
    raise TypeError(type(c))


def dec_content(j):
    t, v = j['t'], j['v']
    if t == 'str':
        return v
    if t == 'bytes':
        return bytes.fromhex(v)
    if t == 'int':
        return int(v)
    if t == 'bool':
        # only written literally by C15's related grid (an int subclass equal to 0 / 1); never generated elsewhere
        return bool(v)
    if t == 'tuple':
        return tuple([dec_content(v[0])] + list(v[1:]))
    if t == 'list':
        return [dec_content(x) for x in v]
    raise ValueError(t)


def norm_mode(mode):
    """mode given as name in any case or as constant -> lower-case name or None (or 'INVALID')."""
    if mode is None:
        return None
    if isinstance(mode, str):
        return mode.lower() if mode.lower() in MODE_CONST else 'INVALID'
    return CONST_MODE.get(mode, 'INVALID')


def expected_bytes_single(content, mode, encoding):
    """The bytes the statement of C01 says must be recovered, and the encoding they are in.
    Raises UnicodeError / LookupError when the text cannot be encoded as requested (then segno has
    to refuse as well)."""
    if isinstance(content, (bytes, bytearray)):
        return bytes(content), (encoding or 'iso-8859-1')
    s = str(content)
    if norm_mode(mode) == 'hanzi':
        return s.encode('gb2312'), 'gb2312'
    if encoding:
        return s.encode(encoding), encoding
    for e in ('iso-8859-1', 'shift_jis', 'utf-8'):
        try:
            return s.encode(e), e
        except UnicodeError:
            pass
    raise UnicodeEncodeError('utf-8', s, 0, 1, 'not encodable')


def expected_parts(content, mode=None, encoding=None):
    """List of (bytes, encoding_name, requested_mode_name) per part."""
    if isinstance(content, (str, bytes, bytearray, int)):
        b, e = expected_bytes_single(content, mode, encoding)
        return [(b, e, norm_mode(mode))]
    parts = []
    for item in content:
        c, m, e = item, mode, encoding
        if isinstance(item, tuple):
            c = item[0]
            if len(item) > 1:
                m = item[1] or mode
            if len(item) > 2:
                e = item[2] or encoding
        b, enc = expected_bytes_single(c, m, e)
        parts.append((b, enc, norm_mode(m)))
    return parts


def codec_name(enc):
    return codecs.lookup(enc).name


# ------------------------------------------------------------------ byte predicates (C07)
ALNUM_BYTES = frozenset(R.ALNUM.encode('ascii'))


def is_numeric_bytes(b):
    return len(b) > 0 and all(0x30 <= x <= 0x39 for x in b)


def is_alnum_bytes(b):
    return len(b) > 0 and all(x in ALNUM_BYTES for x in b)


def is_kanji_bytes(b):
    if not b or len(b) % 2:
        return False
    for i in range(0, len(b), 2):
        code = (b[i] << 8) | b[i + 1]
        if not (0x8140 <= code <= 0x9ffc or 0xe040 <= code <= 0xebbf):
            return False
        if not (0x40 <= b[i + 1] <= 0xfc) or b[i + 1] == 0x7f:
            return False
    return True


def is_hanzi_bytes(b):
    if not b or len(b) % 2:
        return False
    for i in range(0, len(b), 2):
        code = (b[i] << 8) | b[i + 1]
        if not (0xa1a1 <= code <= 0xaafe or 0xb0a1 <= code <= 0xfafe):
            return False
        if not 0xa1 <= b[i + 1] <= 0xfe:
            return False
    return True


def representable(mode, b):
    return {'numeric': is_numeric_bytes, 'alphanumeric': is_alnum_bytes, 'kanji': is_kanji_bytes,
            'hanzi': is_hanzi_bytes, 'byte': lambda x: True}[mode](b)


def auto_mode(b):
    for m in ('numeric', 'alphanumeric', 'kanji'):
        if representable(m, b):
            return m
    return 'byte'


def payload_bits(mode, nbytes):
    """Bits of the data part of a segment with nbytes payload bytes."""
    if mode == 'numeric':
        return 10 * (nbytes // 3) + (0, 4, 7)[nbytes % 3]
    if mode == 'alphanumeric':
        return 11 * (nbytes // 2) + 6 * (nbytes % 2)
    if mode == 'byte':
        return 8 * nbytes
    return 13 * (nbytes // 2)


def char_count(mode, nbytes):
    return nbytes // 2 if mode in ('kanji', 'hanzi') else nbytes


def segment_bits(v, mode, nbytes, eci_header=False):
    """Bits of one segment in version v (None if the mode / count is impossible there)."""
    cc = R.cci_bits(v, mode)
    if cc is None:
        return None
    if char_count(mode, nbytes) >= (1 << cc):
        return None
    return (R.mode_indicator_bits(v) + cc + payload_bits(mode, nbytes)
            + (4 if mode == 'hanzi' else 0) + (12 if eci_header else 0))


# ------------------------------------------------------------------ guarded calls
class Refused(Exception):
    """segno refused the input with a ValueError (legal outcome)."""

    def __init__(self, exc):
        super().__init__(repr(exc))
        self.exc = exc


class Crash(Exception):
    """segno raised something that is not a ValueError."""

    def __init__(self, exc):
        tb = traceback.extract_tb(exc.__traceback__)
        frames = [f for f in tb if os.path.abspath(f.filename).startswith(REPO + os.sep)]
        where = frames[-1].name if frames else (tb[-1].name if tb else '?')
        self.key = '%s@%s' % (type(exc).__name__, where)
        self.exc = exc
        super().__init__('%s: %s' % (self.key, exc))


def call(fn, *args, **kw):
    """Calls into segno.  Returns the value; raises Refused for ValueError, Crash otherwise."""
    try:
        return fn(*args, **kw)
    except ValueError as ex:
        raise Refused(ex)
    except (KeyboardInterrupt, SystemExit):
        raise
    except Exception as ex:  # noqa: BLE001
        raise Crash(ex)


def matrix_of(qr):
    """The module matrix as tuple of tuples of ints (values are not normalised)."""
    return tuple(tuple(row) for row in qr.matrix)


def decode_symbol(prop, qr, correct=False):
    """Reference decode of a segno symbol.  Returns (decoded | None, [Dev])."""
    m = matrix_of(qr)
    try:
        d = R.decode(m, correct=correct)
    except R.SymbolError as ex:
        return None, [Dev(prop + '/undecodable', str(ex))]
    except ValueError as ex:
        return None, [Dev(prop + '/not-a-qr-size', str(ex))]
    devs = []
    if d['structure_errors']:
        devs.append(Dev(prop + '/function-pattern', '; '.join(d['structure_errors'][:3])))
    if not all(d['rs_ok']):
        devs.append(Dev(prop + '/rs-syndrome', 'blocks with non-zero syndromes: %s'
                        % [i for i, ok in enumerate(d['rs_ok']) if not ok][:5]))
    if any(h for h, _ in d['format_decoded']):
        devs.append(Dev(prop + '/format-bits', 'format copies at distance %s' % [h for h, _ in d['format_decoded']]))
    elif len(d['format_decoded']) == 2 and d['format_decoded'][0][1] != d['format_decoded'][1][1]:
        devs.append(Dev(prop + '/format-bits', 'format copies disagree'))
    return d, devs


def version_class(v):
    if R.is_micro(v):
        return v
    return 'v1-9' if v <= 9 else ('v10-26' if v <= 26 else 'v27-40')
