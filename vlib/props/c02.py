"""C02 - geometry, function patterns, format / version information, metadata."""
import hashlib

import segno

from .. import qrref as R
from .. import gens
from ..common import call, Refused, Crash, dec_content, enc_content, matrix_of, version_class
from ..runner import Dev, Outcome, Enum, Search

PROPERTY = 'C02'
LEVEL = 'exploration'
RULE = ('Enumeration of all 1312 (version, level, mask) triples, each with several data contents derived '
        'from sha1(seed, triple) (shortest, exact fit, random length; all modes of the version in thorough), '
        'boost_error=False and explicit mask; plus Hypothesis cases from the C01 generator (automatic '
        'version/mask/boost). Oracle: function-pattern map, BCH(15,5)/Golay(18,6) computed from the '
        'generator polynomials, metadata compared with what is read from the matrix. A case is non-trivial '
        'when segno returned a symbol; distinct by sha1 of the case.')
ASSUMPTIONS = ['vlib/qrref.py function-pattern map and format/version codes (validated against the ISO figures)']


def _rnd(seed, *key):
    h = hashlib.sha1(repr((seed,) + key).encode()).digest()
    return int.from_bytes(h[:8], 'big')


def _content(mode, n, salt):
    alpha = gens.alphabet_for(mode)
    return ''.join(alpha[_rnd(salt, mode, i) % len(alpha)] for i in range(n))


def triple_cases(tier, seed):
    cases = []
    for v in R.ALL_VERSIONS:
        for lvl in R.levels_of(v):
            for mask in range(R.n_masks(v)):
                modes = [m for m in gens.MODES if R.cci_bits(v, m) is not None]
                plan = [('numeric', 1)]
                mx = gens.max_len(v, lvl, 'numeric')
                plan.append(('numeric', mx))
                plan.append(('numeric', 1 + _rnd(seed, v, lvl, mask, 'n') % mx))
                if tier == 'thorough':
                    for m in modes[1:]:
                        mxm = gens.max_len(v, lvl, m)
                        if mxm > 0:
                            plan.append((m, mxm))
                            plan.append((m, 1 + _rnd(seed, v, lvl, mask, m) % mxm))
                else:
                    m = modes[_rnd(seed, v, lvl, mask, 'm') % len(modes)]
                    mxm = gens.max_len(v, lvl, m)
                    if mxm > 0:
                        plan.append((m, 1 + _rnd(seed, v, lvl, mask, m) % mxm))
                for mode, n in plan:
                    kw = {'version': v, 'mask': mask, 'boost_error': False, 'mode': mode}
                    if lvl is not None:
                        kw['error'] = lvl
                    cases.append({'fn': 'make', 'kw': kw, 'triple': True,
                                  'content': enc_content(_content(mode, n, (seed, str(v), lvl, mask)))})
    return cases


def structural_devs(prop, qr, decoded=None):
    """Checks everything C02 states about one symbol.  Returns (devs, info)."""
    devs = []
    m = matrix_of(qr)
    n = len(m)
    try:
        v = R.version_of_size(n)
    except ValueError:
        return [Dev(prop + '/size', 'matrix has %d rows' % n)], None
    errs = R.check_structure(m, v)
    if errs:
        devs.append(Dev(prop + '/function-pattern', '; '.join(errs[:3])))
        if any('is not' in e or 'has value' in e for e in errs):
            return devs, None
    # metadata vs. physical symbol
    if qr.version != v or type(qr.version) is not type(v):
        devs.append(Dev(prop + '/meta-version', 'reports %r, matrix is %r' % (qr.version, v)))
    if bool(qr.is_micro) != R.is_micro(v) or not isinstance(qr.is_micro, bool):
        devs.append(Dev(prop + '/meta-is_micro', 'reports %r for %r' % (qr.is_micro, v)))
    lvl, mask = qr.error, qr.mask
    if lvl not in R.levels_of(v):
        devs.append(Dev(prop + '/meta-error', 'reports level %r for version %r' % (lvl, v)))
        return devs, None
    if not isinstance(mask, int) or isinstance(mask, bool) or not 0 <= mask < R.n_masks(v):
        devs.append(Dev(prop + '/meta-mask', 'reports mask %r' % (mask,)))
        return devs, None
    fw = R.format_word(v, lvl, mask)
    c1, c2 = R.format_positions(v)
    w1 = R.read_word(m, c1)
    if w1 != fw:
        devs.append(Dev(prop + '/format-copy1', 'format copy 1 is {:015b}, expected {:015b} for {}/{}/{}'.format(w1, fw, v, lvl, mask)))
    if c2 is not None:
        w2 = R.read_word(m, c2)
        if w2 != fw:
            devs.append(Dev(prop + '/format-copy2', 'format copy 2 is {:015b}, expected {:015b} for {}/{}/{}'.format(w2, fw, v, lvl, mask)))
    if not R.is_micro(v) and v >= 7:
        a, b = R.read_version_info(m, v)
        g = R.golay18_6(v)
        if a != g:
            devs.append(Dev(prop + '/version-copy-upper-right', '{:018b} != {:018b}'.format(a, g)))
        if b != g:
            devs.append(Dev(prop + '/version-copy-lower-left', '{:018b} != {:018b}'.format(b, g)))
    des = str(v) + ('-' + lvl if lvl else '')
    if qr.designator != des:
        devs.append(Dev(prop + '/meta-designator', '%r != %r' % (qr.designator, des)))
    dflt = 2 if R.is_micro(v) else 4
    if qr.default_border_size != dflt:
        devs.append(Dev(prop + '/meta-default-border', '%r != %r' % (qr.default_border_size, dflt)))
    return devs, (v, lvl, mask)


def symbol_size_devs(prop, qr, n, dflt, salt):
    devs = []
    for scale, border in ((1, None), (1 + salt % 9, salt % 7), (2.5, 0), (0.5, 1), (3, None)):
        exp_b = dflt if border is None else border
        exp = ((n + 2 * exp_b) * scale, (n + 2 * exp_b) * scale)
        try:
            got = qr.symbol_size(scale=scale, border=border)
        except Exception as ex:  # noqa: BLE001
            devs.append(Dev(prop + '/symbol_size', 'symbol_size(%r, %r) raised %r' % (scale, border, ex)))
            continue
        if tuple(got) != exp:
            devs.append(Dev(prop + '/symbol_size', 'symbol_size(%r, %r) = %r, expected %r' % (scale, border, got, exp)))
    if tuple(qr.symbol_size()) != ((n + 2 * dflt),) * 2:
        devs.append(Dev(prop + '/symbol_size', 'symbol_size() = %r' % (qr.symbol_size(),)))
    return devs


def check_case(case):
    content = dec_content(case['content'])
    kw = dict(case['kw'])
    fn = getattr(segno, case['fn'])
    if case['fn'] == 'make_sequence':
        # every symbol of a sequence is a returned symbol, too
        try:
            seq = call(lambda: list(fn(content, **kw)))
        except Refused:
            return Outcome((), ('refused',), False, True)
        except Crash as ex:
            return Outcome([Dev('C02/crash-' + ex.key, str(ex))], ('crash',), True)
        devs = []
        for qr in seq:
            sd, info = structural_devs('C02', qr)
            devs += sd
            if info:
                try:
                    d = R.decode(matrix_of(qr))
                    if (d['level'], d['mask']) != (info[1], info[2]):
                        devs.append(Dev('C02/format-decoded', 'format bits decode to %s/%s, object reports %s/%s'
                                        % (d['level'], d['mask'], info[1], info[2])))
                except R.SymbolError as ex:
                    devs.append(Dev('C02/undecodable', str(ex)))
        return Outcome(devs, ('sequence', 'symbols-%d' % min(len(seq), 3)), True)
    try:
        qr = call(fn, content, **kw)
    except Refused as ex:
        if case.get('triple'):
            return Outcome([Dev('C02/triple-refused', 'valid triple refused: %s' % ex)], ('refused',), True, True)
        return Outcome((), ('refused',), False, True)
    except Crash as ex:
        return Outcome([Dev('C02/crash-' + ex.key, str(ex))], ('crash',), True)
    devs, info = structural_devs('C02', qr)
    labels = []
    if info:
        v, lvl, mask = info
        n = R.size_of(v)
        devs += symbol_size_devs('C02', qr, n, 2 if R.is_micro(v) else 4, len(str(case['content'])))
        labels += [version_class(v), 'level-%s' % lvl, 'mask-%d' % mask]
        # the decoder must agree with the reported metadata (format bits decoded, not only compared)
        try:
            d = R.decode(matrix_of(qr))
        except R.SymbolError as ex:
            devs.append(Dev('C02/undecodable', str(ex)))
            d = None
        if d is not None:
            if (d['level'], d['mask']) != (lvl, mask):
                devs.append(Dev('C02/format-decoded', 'format bits decode to %s/%s, object reports %s/%s'
                                % (d['level'], d['mask'], lvl, mask)))
            modes = [s['mode'] for s in d['segments']]
            if len(modes) == 1:
                if qr.mode != modes[0]:
                    devs.append(Dev('C02/meta-mode', 'reports mode %r, symbol has %r' % (qr.mode, modes[0])))
            elif modes and not (qr.mode is None or (len(set(modes)) == 1 and qr.mode == modes[0])):
                devs.append(Dev('C02/meta-mode', 'reports mode %r, symbol has %r' % (qr.mode, modes)))
        # requested values are the ones found in the symbol
        if kw.get('version') is not None:
            rv = kw['version']
            rv = rv.upper() if isinstance(rv, str) and rv.upper() in R.MICRO else int(rv)
            if rv != v:
                devs.append(Dev('C02/requested-version', 'requested %r, symbol is %r' % (kw['version'], v)))
        if kw.get('mask') is not None and int(kw['mask']) != mask:
            devs.append(Dev('C02/requested-mask', 'requested %r, symbol has %r' % (kw['mask'], mask)))
        if kw.get('error') is not None and kw.get('boost_error') is False and kw['error'].upper() != lvl:
            devs.append(Dev('C02/requested-level', 'requested %r, symbol has %r' % (kw['error'], lvl)))
        if case.get('triple'):
            labels.append('triple')
    return Outcome(devs, labels, nontrivial=True)


def sequence_cases(tier, seed):
    cases = []
    for i in range(60 if tier == 'quick' else 600):
        h = _rnd(seed, 'seq', i)
        n = 5 + h % 90
        alpha = ('0123456789', 'ABCDEFGH 0123$%', 'abcdefgh,;xyz')[(h >> 8) % 3]
        text = ''.join(alpha[_rnd(seed, 'seq', i, k) % len(alpha)] for k in range(n))
        kw = {'symbol_count': 2 + (h >> 12) % 5} if (h >> 16) % 2 else {'version': 1 + (h >> 12) % 3}
        if (h >> 20) % 2:
            kw['error'] = 'LMQH'[(h >> 21) % 4]
        if (h >> 24) % 3 == 0:
            kw['boost_error'] = False
        cases.append({'fn': 'make_sequence', 'content': enc_content(text), 'kw': kw})
    return cases


def required_labels(tier):
    return ['sequence', 'triple', 'M1', 'M2', 'M3', 'M4', 'v1-9', 'v10-26', 'v27-40']


def _fuzz(tier):
    """Coverage-guided phase (atheris), thorough tier (or VERIF_FUZZ_RUNS=<n> in any tier)."""
    import os
    runs = int(os.environ.get('VERIF_FUZZ_RUNS', '0' if tier == 'quick' else '320000'))
    if not runs:
        return []
    from .. import fuzz
    return [fuzz.fuzz_phase(__name__, runs)]


def phases(tier, seed):
    n = 3200 if tier == 'quick' else 100000
    return [
        Enum('triples', lambda: triple_cases(tier, seed), exhaustive=True,
             note='all 44 versions x supported levels x 8/4 masks = 1312 triples, several contents each'),
        Enum('sequences', lambda: sequence_cases(tier, seed), exhaustive=False,
             note='Structured Append sequences: the metadata of every symbol against its matrix'),
        Search('free', gens.make_cases(big=0.05), n),
    ] + _fuzz(tier)
