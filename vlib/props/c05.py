"""C05 - error level is never below the request; boosting never changes the version."""
import segno

from .. import qrref as R
from .. import gens
from ..common import call, Refused, Crash, dec_content, enc_content, decode_symbol, version_class
from ..runner import Dev, Outcome, Enum, Search
from .c04 import pure_content, cost

PROPERTY = 'C05'
LEVEL = 'exploration'
RULE = ('Enumeration: for each version (Micro, 1-10, 20, 27, 40 in quick; all 44 in thorough) x mode x level l of '
        'the version, content of n = maxlen(v, l) and n + 1 characters (exact fit of that level and one more) x '
        'requested level {None, L, M, Q, H} x boost_error {True, False} x version requested / not requested '
        '(make, make_qr, make_micro); plus Hypothesis cases (incl. multi-part). Oracle: the level is read from '
        'the format bits; expected level = highest level of the decoded version whose capacity holds the decoded '
        'segment structure (boost on, single part) or exactly the requested / default level (boost off); the version '
        'must equal the one obtained with boost_error=False. Non-trivial: symbol returned; distinct by sha1(case).')
ASSUMPTIONS = ['capacity model from vlib/qrref.py', 'level decoded by vlib/qrref.py from the format information']
ORD = {None: -1, 'L': 0, 'M': 1, 'Q': 2, 'H': 3}


def level_cases(tier):
    versions = list(R.ALL_VERSIONS) if tier == 'thorough' else list(R.MICRO) + list(range(1, 11)) + [20, 27, 40]
    cases = []
    for v in versions:
        for mode in gens.MODES:
            if R.cci_bits(v, mode) is None:
                continue
            ns = set()
            for lvl in R.levels_of(v):
                mx = gens.max_len(v, lvl, mode)
                ns.update(x for x in (mx, mx + 1) if x >= 1)
            for n in sorted(ns):
                for req in (None, 'L', 'M', 'Q', 'H'):
                    if R.is_micro(v) and req == 'H':
                        continue
                    for boost in (True, False):
                        for with_version in (True, False):
                            kw = {'mask': 0}
                            if req:
                                kw['error'] = req
                            if not boost:
                                kw['boost_error'] = False
                            elif n % 2:
                                kw['boost_error'] = True
                            if mode == 'hanzi':
                                kw['mode'] = 'hanzi'
                            fn = 'make'
                            if with_version:
                                kw['version'] = v
                            elif R.is_micro(v):
                                fn = 'make_micro' if n % 3 else 'make'
                                if fn == 'make':
                                    kw['micro'] = True
                            else:
                                fn = 'make_qr' if n % 3 else 'make'
                                if fn == 'make':
                                    kw['micro'] = False
                            cases.append({'fn': fn, 'content': enc_content(pure_content(mode, n)), 'kw': kw, 'enum': True})
    # eci=True with byte content: whether a header is written is read from the symbol
    for v in (1, 2, 3, 5, 9, 10):
        for lvl in R.levels_of(v):
            mx = gens.max_len(v, lvl, 'byte')
            for n in (mx, mx - 1, mx - 2):
                if n < 1:
                    continue
                for enc in ('ISO-8859-1', 'latin1', 'iso-8859-1', 'utf-8', 'Iso-8859-1', 'cp1252', None):
                    for req in (None, 'L', lvl):
                        kw = {'mask': 0, 'eci': True}
                        if enc:
                            kw['encoding'] = enc
                        if req:
                            kw['error'] = req
                        cases.append({'fn': 'make_qr' if n % 2 else 'make', 'content': enc_content(pure_content('byte', n)), 'kw': kw, 'enum': True})
    return cases


def check_case(case):
    content = dec_content(case['content'])
    kw = dict(case['kw'])
    fn = getattr(segno, case['fn'])
    if case['fn'] == 'make_sequence':
        return check_sequence(fn, content, kw)
    try:
        qr = call(fn, content, **kw)
    except Refused:
        return Outcome((), ('refused',), False, True)
    except Crash as ex:
        return Outcome([Dev('C05/crash-' + ex.key, str(ex))], ('crash',), True)
    d, devs = decode_symbol('C05', qr)
    if d is None:
        return Outcome(devs, ('undecodable',), True)
    v, lvl = d['version'], d['level']
    req = kw.get('error')
    req = req.upper() if isinstance(req, str) else None
    boost = kw.get('boost_error', True)
    multi = isinstance(content, (list, tuple))
    labels = [version_class(v), 'got-%s' % lvl, 'req-%s' % req, 'boost' if boost else 'no-boost',
              'multi-part' if multi else 'single-part']
    if qr.error != lvl:
        devs.append(Dev('C05/meta-error', 'object reports %r, format bits say %r' % (qr.error, lvl)))
    if R.is_micro(v) and lvl == 'H':
        devs.append(Dev('C05/H-in-micro', 'level H in %s' % v))
    floor = req if req else (None if v == 'M1' else 'L')
    if ORD[lvl] < ORD[floor]:
        devs.append(Dev('C05/level-below-request', 'requested %r (floor %r), symbol has %r' % (req, floor, lvl)))
    segs = [(s['mode'], len(s['data']), s['eci'] is not None) for s in d['segments']]
    if not boost:
        if lvl != floor:
            devs.append(Dev('C05/boost-off-level-changed', 'boost_error=False, requested %r, got %r in %s' % (req, lvl, v)))
    elif len(segs) == 1 and not multi and v != 'M1':
        need = cost(v, segs)
        best = floor
        for cand in R.levels_of(v):
            if ORD[cand] > ORD[floor] and need is not None and need <= R.data_capacity_bits(v, cand):
                best = cand
        if lvl != best:
            devs.append(Dev('C05/not-highest-level', '%s needs %s bits: highest fitting level is %r, got %r (requested %r)'
                            % (v, need, best, lvl, req)))
        labels.append('boosted' if ORD[lvl] > ORD[floor] else 'not-boostable')
    if boost:
        kw2 = dict(kw, boost_error=False)
        try:
            qr2 = call(fn, content, **kw2)
            if qr2.version != qr.version:
                devs.append(Dev('C05/boost-changed-version', 'version %s with boosting, %s without' % (qr.version, qr2.version)))
        except Refused as ex:
            devs.append(Dev('C05/boost-changed-acceptance', 'accepted with boosting, refused without: %s' % ex))
        except Crash as ex:
            devs.append(Dev('C05/crash-' + ex.key, str(ex)))
    return Outcome(devs, labels, True)


def check_sequence(fn, content, kw):
    """Every symbol of a Structured Append sequence is a returned symbol: its level obeys the same rules
    (the content of a symbol is its chunk together with the Structured Append header)."""
    try:
        seq = call(lambda: list(fn(content, **kw)))
    except Refused:
        return Outcome((), ('refused',), False, True)
    except Crash as ex:
        return Outcome([Dev('C05/crash-' + ex.key, str(ex))], ('crash',), True)
    req = kw.get('error')
    req = req.upper() if isinstance(req, str) else None
    floor = req or 'L'
    boost = kw.get('boost_error', True)
    devs = []
    labels = ['sequence', 'boost' if boost else 'no-boost', 'seq-symbols-%s' % ('1' if len(seq) == 1 else 'n')]
    for i, qr in enumerate(seq):
        d, dd = decode_symbol('C05', qr)
        devs += dd
        if d is None:
            continue
        v, lvl = d['version'], d['level']
        if qr.error != lvl:
            devs.append(Dev('C05/meta-error', 'symbol %d reports %r, format bits say %r' % (i, qr.error, lvl)))
        if ORD[lvl] < ORD[floor]:
            devs.append(Dev('C05/level-below-request', 'symbol %d: requested %r, symbol has %r' % (i, req, lvl)))
        if not boost:
            if lvl != floor:
                devs.append(Dev('C05/boost-off-level-changed', 'symbol %d of a sequence: boost_error=False, requested %r, got %r' % (i, req, lvl)))
        elif len(d['segments']) == 1:
            need = d['end']
            best = floor
            for cand in R.levels_of(v):
                if ORD[cand] > ORD[floor] and need <= R.data_capacity_bits(v, cand):
                    best = cand
            if lvl != best:
                devs.append(Dev('C05/not-highest-level', 'symbol %d of %d (%s) uses %d bits: highest fitting level is %r, got %r (requested %r)'
                                % (i, len(seq), v, need, best, lvl, req)))
            labels.append('boosted' if ORD[lvl] > ORD[floor] else 'not-boostable')
    return Outcome(devs, labels, True)


def sequence_cases(tier):
    cases = []
    for mode, unit in (('numeric', '1234567890'), ('alphanumeric', 'ABC DEF$%'), ('byte', 'abcdefgh')):
        for n in range(2, 120 if tier == 'quick' else 700):
            text = (unit * (n // len(unit) + 1))[:n]
            for ci, kw in enumerate(({'symbol_count': 2}, {'symbol_count': 3}, {'version': 1}, {'version': 2, 'error': 'M'},
                                     {'symbol_count': 4, 'error': 'Q'}, {'symbol_count': 2, 'boost_error': False, 'error': 'M'},
                                     {'version': 1, 'boost_error': False}, {'symbol_count': 5, 'error': 'H'}, {'symbol_count': 1}, {'symbol_count': 1, 'error': 'Q'})):
                if 'version' in kw and n > 150:
                    continue  # keeps clear of the 16 symbol limit (known finding K3 of C08)
                if (n + ci) % 2 and tier == 'quick' and n > 40:
                    continue
                cases.append({'fn': 'make_sequence', 'content': enc_content(text), 'kw': dict(kw, mask=0), 'enum': True})
    return cases


def required_labels(tier):
    return ['boosted', 'not-boostable', 'no-boost', 'boost', 'req-None', 'req-H', 'M1', 'M2', 'M3', 'M4', 'multi-part', 'sequence', 'seq-symbols-n']


def _fuzz(tier):
    """Coverage-guided phase (atheris), thorough tier (or VERIF_FUZZ_RUNS=<n> in any tier)."""
    import os
    runs = int(os.environ.get('VERIF_FUZZ_RUNS', '0' if tier == 'quick' else '320000'))
    if not runs:
        return []
    from .. import fuzz
    return [fuzz.fuzz_phase(__name__, runs)]


def phases(tier, seed):
    n = 9600 if tier == 'quick' else 300000
    return [
        Enum('levels', lambda: level_cases(tier), exhaustive=True,
             note='exact-fit lengths of every level of the listed versions x requested level x boost x version requested'),
        Enum('sequences', lambda: sequence_cases(tier), exhaustive=False,
             note='every symbol of Structured Append sequences: content lengths 2..119 (thorough: ..699) x 3 modes x 10 option sets incl. symbol_count=1'),
        Search('free', gens.make_cases(big=0.05), n),
    ] + _fuzz(tier)
