"""C01 - every symbol decodes back to exactly the content that was given; ECI headers."""
import segno

from .. import qrref as R
from .. import gens
from ..common import (call, Refused, Crash, dec_content, decode_symbol, expected_parts, codec_name, enc_content,
                      version_class)
from ..runner import Dev, Outcome, Search, Enum

PROPERTY = 'C01'
LEVEL = 'exploration'
RULE = ('Hypothesis cases: 60% constructive single-part cases (mode, version, level drawn first, content '
        'made to fit, lengths biased to the capacity boundary), 25% free option/content combinations '
        '(weighted alphabets: digits, 45 alphanumerics, Latin-1, JIS X 0208, GB2312, BMP/astral, controls; '
        'Shift-JIS / GB2312 shaped bytes with arbitrary trail bytes; ints), 15% multi-part content. '
        'Oracle: ISO 18004 reference decoder + text->bytes policy model + ECI register table. '
        'Non-trivial: symbol returned, payload >= 2 bytes and (an option given, or non-ASCII payload, or '
        'multi-part); distinct by sha1 of the case.')
ASSUMPTIONS = ['vlib/qrref.py decoder (validated against the grids printed in ISO/IEC 18004)',
               'ECI accept-sets typed in from the AIM ECI register',
               'Python codecs implement the named character sets']

# canonical codec name -> acceptable ECI assignment numbers (AIM ECI register)
ECI_ACCEPT = {
    'cp437': {0, 2}, 'iso8859-1': {1, 3}, 'iso8859-2': {4}, 'iso8859-3': {5}, 'iso8859-4': {6},
    'iso8859-5': {7}, 'iso8859-6': {8}, 'iso8859-7': {9}, 'iso8859-8': {10}, 'iso8859-9': {11},
    'iso8859-10': {12}, 'iso8859-11': {13}, 'iso8859-13': {15}, 'iso8859-14': {16}, 'iso8859-15': {17},
    'iso8859-16': {18}, 'shift_jis': {20}, 'cp1250': {21}, 'cp1251': {22}, 'cp1252': {23}, 'cp1256': {24},
    'utf-16-be': {25}, 'utf-8': {26}, 'ascii': {27, 170}, 'big5': {28}, 'gb2312': {29}, 'gbk': {29, 31},
    'gb18030': {29, 32}, 'euc_kr': {30}, 'utf-16-le': {33}, 'utf-32-be': {34}, 'utf-32-le': {35},
}


def payload_and_eci_devs(prop, d, parts, eci_requested):
    """Compares decoded segments with the expected parts.  parts: [(bytes, encoding, mode)]."""
    devs = []
    exp = b''.join(p[0] for p in parts)
    got = b''.join(s['data'] for s in d['segments'])
    if got != exp:
        i = 0
        while i < min(len(got), len(exp)) and got[i] == exp[i]:
            i += 1
        kind = 'truncated' if exp.startswith(got) else ('extended' if got.startswith(exp) else 'altered')
        devs.append(Dev('%s/payload-%s' % (prop, kind),
                        'decoded %d bytes, expected %d; first difference at %d: got %r expected %r; modes %s'
                        % (len(got), len(exp), i, got[i:i + 8], exp[i:i + 8], [s['mode'] for s in d['segments']])))
        return devs
    micro = R.is_micro(d['version'])
    has_eci = [s for s in d['segments'] if s['eci'] is not None]
    if has_eci and (micro or not eci_requested):
        devs.append(Dev(prop + '/eci-unexpected', 'ECI %s present (micro=%s, eci requested=%s)'
                        % ([s['eci'] for s in has_eci], micro, eci_requested)))
    if eci_requested and not micro:
        # walk decoded segments and expected parts by byte offset
        bounds = []
        off = 0
        for b, enc, _m in parts:
            bounds.append((off, off + len(b), enc))
            off += len(b)
        off = 0
        current = None  # an ECI designator stays in effect until the next one
        for s in d['segments']:
            lo, hi = off, off + len(s['data'])
            off = hi
            if s['eci'] is not None:
                current = s['eci']
            if s['mode'] != 'byte':
                continue
            for plo, phi, enc in bounds:
                if phi <= lo or plo >= hi or plo == phi:
                    continue
                try:
                    name = codec_name(enc)
                except LookupError:
                    continue
                if name == 'iso8859-1':
                    continue
                accept = ECI_ACCEPT.get(name)
                if s['eci'] is None:
                    devs.append(Dev(prop + '/eci-missing', 'byte segment in %s has no ECI header' % name))
                elif accept is None:
                    devs.append(Dev(prop + '/eci-no-assignment', 'ECI %d written for %s which has no assignment '
                                    'number in the register' % (s['eci'], name)))
                elif s['eci'] not in accept:
                    devs.append(Dev(prop + '/eci-wrong-number', 'ECI %d written for %s, register says %s'
                                    % (s['eci'], name, sorted(accept))))
    return devs


def check_case(case):
    content = dec_content(case['content'])
    kw = dict(case['kw'])
    fn = getattr(segno, case['fn'])
    multi = isinstance(content, (list, tuple))
    try:
        qr = call(fn, content, **kw)
    except Refused:
        return Outcome((), ('refused',), False, True)
    except Crash as ex:
        return Outcome([Dev('C01/crash-' + ex.key, str(ex))], ('crash',), True)
    d, devs = decode_symbol('C01', qr)
    labels = ['multi-part' if multi else 'single-part']
    if d is None:
        return Outcome(devs, labels + ['undecodable'], True)
    try:
        parts = expected_parts(content, kw.get('mode'), kw.get('encoding'))
    except (UnicodeError, LookupError) as ex:
        devs.append(Dev('C01/accepted-unencodable', 'segno accepted content which cannot be encoded as requested: %r' % ex))
        return Outcome(devs, labels, True)
    devs += payload_and_eci_devs('C01', d, parts, bool(kw.get('eci')))
    payload = b''.join(p[0] for p in parts)
    labels += [version_class(d['version']), 'level-%s' % d['level']]
    labels += sorted({'mode-' + s['mode'] for s in d['segments']})
    if kw.get('eci'):
        labels.append('eci-requested')
    if any(s['eci'] is not None for s in d['segments']):
        labels.append('eci-header')
    if kw.get('encoding'):
        labels.append('explicit-encoding')
    nontrivial = len(payload) >= 2 and (bool(kw) or multi or any(b > 0x7e for b in payload))
    return Outcome(devs, labels, nontrivial)


def double_byte_sweep():
    """Every character of the Kanji mode ranges (Shift JIS 8140-9FFC, E040-EBBF) and of GB2312 goes through the
    encoder at least twice (as text with automatic mode, as bytes with the mode requested); the first and last
    character of every lead byte also alone."""
    cases = []
    for chars, codec, mode in ((gens.sjis_chars(), 'shift_jis', 'kanji'), (gens.gb_chars(), 'gb2312', 'hanzi')):
        for i in range(0, len(chars), 12):
            chunk = chars[i:i + 12]
            kw = {'micro': False} if mode == 'kanji' else {'mode': 'hanzi'}
            cases.append({'fn': 'make', 'content': enc_content(chunk), 'kw': dict(kw, mask=(i // 12) % 8)})
            cases.append({'fn': 'make_qr', 'content': enc_content(chunk.encode(codec)), 'kw': {'mode': mode, 'error': 'LMQH'[(i // 12) % 4]}})
        leads = {}
        for ch in chars:
            leads.setdefault(ch.encode(codec)[0], []).append(ch)
        for lead, lst in sorted(leads.items()):
            for ch in {lst[0], lst[-1]}:
                cases.append({'fn': 'make', 'content': enc_content(ch), 'kw': {} if mode == 'kanji' else {'mode': 'hanzi'}})
                cases.append({'fn': 'make', 'content': enc_content(ch.encode(codec)), 'kw': {'mode': mode, 'version': 1}})
    return cases


def required_labels(tier):
    return ['multi-part', 'single-part', 'mode-numeric', 'mode-alphanumeric', 'mode-byte', 'mode-kanji',
            'mode-hanzi', 'M1', 'M2', 'M3', 'M4', 'v1-9', 'v10-26', 'eci-header', 'refused']


def _fuzz(tier):
    """Coverage-guided phase (atheris), thorough tier (or VERIF_FUZZ_RUNS=<n> in any tier)."""
    import os
    runs = int(os.environ.get('VERIF_FUZZ_RUNS', '0' if tier == 'quick' else '320000'))
    if not runs:
        return []
    from .. import fuzz
    return [fuzz.fuzz_phase(__name__, runs)]


def phases(tier, seed):
    n = 25600 if tier == 'quick' else 600000
    ph = [Enum('double-byte-sweep', double_byte_sweep, exhaustive=True,
               note='every double-byte character of the Kanji mode ranges and of GB2312, 12 per symbol, as text and as bytes; first / last of every lead byte alone'),
          Search('cases', gens.make_cases(big=0.05 if tier == 'quick' else 0.15), n)]
    return ph + _fuzz(tier)
