"""C13 - data bit stream is terminated and padded as ISO 7.4.9 / 7.4.10 require."""
import segno
from hypothesis import strategies as st

from .. import qrref as R
from .. import gens
from ..common import call, Refused, Crash, dec_content, enc_content, decode_symbol, segment_bits
from ..runner import Dev, Outcome, Enum, Search
from .c04 import pure_content

PROPERTY = 'C13'
LEVEL = 'exploration'
RULE = ('Enumeration steered to cover every cell (symbol class QR/M1/M2/M3/M4) x (terminated stream length mod 8) x '
        '(distance of the last segment to the capacity: 0..12 bits, or more): for the listed versions x levels x modes '
        'all lengths within 10 characters of the capacity, the lengths 1..8, and two-part numeric+alphanumeric / '
        'numeric+byte mixes; plus Hypothesis cases (C01 generator). Oracle: the data bits after the last decoded '
        'segment must equal iso_tail(version, level, end): min(capacity-end, T) zero bits, zero bits to the codeword '
        'boundary only if not on one, 11101100/00010001 alternating, final 4 bit codeword of M1/M3 = 0000; '
        'remainder bits zero. The cell table is reported in coverage.cells. Non-trivial: symbol returned and tail '
        'non-empty; distinct by sha1(case).')
ASSUMPTIONS = ['vlib/qrref.py iso_tail model of ISO 7.4.9/7.4.10 (the grids printed in the standard follow it)', 'vlib/qrref.py decoder']

K1 = 'C13/K1-extra-zero-codeword-when-aligned'


def k1_tail(v, lvl, end):
    """The tail segno is known to write when the terminated stream is codeword aligned: ISO tail
    with one 00000000 codeword inserted before the pad codewords.  None if K1 does not apply."""
    if v in ('M1', 'M3'):
        return None
    cap = R.data_capacity_bits(v, lvl)
    t = min(cap - end, R.terminator_bits(v))
    pos = end + t
    if pos % 8 or pos >= cap:
        return None
    bits = [0] * t + [0] * 8
    pos += 8
    i = 0
    while cap - pos >= 8:
        cw = (0xEC, 0x11)[i % 2]
        i += 1
        bits += [(cw >> k) & 1 for k in range(7, -1, -1)]
        pos += 8
    return bits


def tail_devs(prop, d):
    v, lvl, end = d['version'], d['level'], d['end']
    obs = d['data_bits'][end:]
    exp = R.iso_tail(v, lvl, end)
    devs = []
    if obs != exp:
        k1 = k1_tail(v, lvl, end)
        if k1 is not None and obs == k1:
            devs.append(Dev(K1, '%s-%s: segments end at bit %d, aligned after the terminator' % (v, lvl, end)))
        else:
            cap = R.data_capacity_bits(v, lvl)
            t = min(cap - end, R.terminator_bits(v))
            if any(obs[:t]):
                kind = 'terminator'
            elif len(obs) != len(exp):
                kind = 'length'
            else:
                pos = end + t
                pad = min(-pos % 8, cap - pos)
                kind = 'padding-bits' if any(obs[t:t + pad]) else 'pad-codewords'
            i = next((i for i, (a, b) in enumerate(zip(obs, exp)) if a != b), min(len(obs), len(exp)))
            devs.append(Dev('%s/tail-%s' % (prop, kind), '%s-%s end=%d: tail differs from ISO at tail bit %d: got %s.. expected %s..'
                            % (v, lvl, end, i, ''.join(map(str, obs[i:i + 24])), ''.join(map(str, exp[i:i + 24])))))
    if any(d['remainder']):
        devs.append(Dev(prop + '/remainder-bits', 'remainder bits %s' % d['remainder']))
    return devs


def cell_of(d):
    v, lvl, end = d['version'], d['level'], d['end']
    cap = R.data_capacity_bits(v, lvl)
    t = min(cap - end, R.terminator_bits(v))
    cls = v if R.is_micro(v) else 'QR'
    dist = cap - end
    return '%s/r%d/d%s' % (cls, (end + t) % 8, dist if dist <= 12 else '13+')


def check_case(case):
    content = dec_content(case['content'])
    kw = dict(case['kw'])
    if case.get('fn') == 'make_sequence':
        # "in every symbol": the symbols of a Structured Append sequence, too
        try:
            seq = call(lambda: list(segno.make_sequence(content, **kw)))
        except Refused:
            return Outcome((), ('refused',), False, True)
        except Crash as ex:
            return Outcome([Dev('C13/crash-' + ex.key, str(ex))], ('crash',), True)
        devs, counters = [], {}
        for qr in seq:
            d, dd = decode_symbol('C13', qr)
            devs += dd
            if d is not None:
                devs += tail_devs('C13', d)
                key = 'cell:SA-' + cell_of(d)
                counters[key] = counters.get(key, 0) + 1
        return Outcome(devs, ['sequence', 'class-QR'], True, counters=counters)
    try:
        qr = call(getattr(segno, case.get('fn', 'make')), content, **kw)
    except Refused:
        return Outcome((), ('refused',), False, True)
    except Crash as ex:
        return Outcome([Dev('C13/crash-' + ex.key, str(ex))], ('crash',), True)
    d, devs = decode_symbol('C13', qr)
    if d is None:
        return Outcome(devs, ('undecodable',), True)
    devs += tail_devs('C13', d)
    cell = cell_of(d)
    return Outcome(devs, ['class-' + cell.split('/')[0]], d['end'] < d['capacity'], counters={'cell:' + cell: 1})


def steered(tier, seed):
    versions = list(R.ALL_VERSIONS) if tier == 'thorough' else list(R.MICRO) + [1, 2, 3, 4, 5, 7, 9, 10, 11, 26, 27, 40]
    cases = []
    for v in versions:
        for lvl in R.levels_of(v):
            for mode in gens.MODES:
                if R.cci_bits(v, mode) is None:
                    continue
                mx = gens.max_len(v, lvl, mode)
                ns = set(range(1, min(9, mx + 1))) | set(range(max(1, mx - 10), mx + 1))
                if not R.is_micro(v) and v > 10 and tier == 'quick':
                    ns = set(range(max(1, mx - 6), mx + 1)) | {1, 2, 3}
                # one and two characters too many for the requested version: refused, or (a defect) a cut stream
                ns |= {mx + 1, mx + 2}
                for n in sorted(ns):
                    kw = {'version': v, 'boost_error': False, 'mask': (n + len(mode)) % R.n_masks(v)}
                    if lvl:
                        kw['error'] = lvl
                    if mode == 'hanzi':
                        kw['mode'] = 'hanzi'
                    cases.append({'fn': 'make', 'content': enc_content(pure_content(mode, n)), 'kw': kw})
            # two-part mixes reach further residues
            pairs = [('numeric', 'alphanumeric'), ('numeric', 'byte'), ('alphanumeric', 'byte'), ('alphanumeric', 'numeric')]
            for ma, mb in pairs:
                if R.cci_bits(v, ma) is None or R.cci_bits(v, mb) is None or (not R.is_micro(v) and v > 10 and tier == 'quick'):
                    continue
                cap = R.data_capacity_bits(v, lvl)
                for na in (1, 2, 3, 4, 5):
                    room = cap - (segment_bits(v, ma, na) or 0)
                    nb = 0
                    while True:
                        b = segment_bits(v, mb, nb + 1)
                        if b is None or b > room:
                            break
                        nb += 1
                    for n2 in range(max(1, nb - 3), nb + 1):
                        kw = {'version': v, 'boost_error': False, 'mask': 0}
                        if lvl:
                            kw['error'] = lvl
                        parts = [pure_content(ma, na), pure_content(mb, n2)]
                        cases.append({'fn': 'make', 'content': enc_content(parts), 'kw': kw})
    # every version x level at least once, whatever the tier (remainder bits, pad codewords of the big versions)
    for v in R.ALL_VERSIONS:
        for lvl in R.levels_of(v):
            for mode in ('byte', 'numeric'):
                if R.cci_bits(v, mode) is None:
                    continue
                mx = gens.max_len(v, lvl, mode)
                for n in {max(1, mx - 3), max(1, mx // 2)}:
                    kw = {'version': v, 'boost_error': False, 'mask': n % R.n_masks(v)}
                    if lvl:
                        kw['error'] = lvl
                    cases.append({'fn': 'make', 'content': enc_content(pure_content(mode, n)), 'kw': kw})
    return cases


def sequence_cases(tier):
    cases = []
    for unit in ('1234567890', 'ABC DEF$%', 'abcdefgh'):
        for n in range(2, 100 if tier == 'quick' else 600):
            text = (unit * (n // len(unit) + 1))[:n]
            for ci, kw in enumerate(({'version': 1}, {'version': 1, 'boost_error': False}, {'symbol_count': 2}, {'symbol_count': 3, 'boost_error': False},
                                     {'version': 2, 'error': 'Q'}, {'symbol_count': 7, 'error': 'M'}, {'symbol_count': 1}, {'symbol_count': 1, 'error': 'M', 'boost_error': False})):
                if 'version' in kw and n > 150:
                    continue  # keeps clear of the 16 symbol limit (known finding K3 of C08)
                if (n + ci) % 2 and tier == 'quick' and n > 50:
                    continue
                cases.append({'fn': 'make_sequence', 'content': enc_content(text), 'kw': dict(kw, mask=ci)})
    return cases


def required_labels(tier):
    return ['sequence', 'class-QR', 'class-M1', 'class-M2', 'class-M3', 'class-M4']


def _fuzz(tier):
    """Coverage-guided phase (atheris), thorough tier (or VERIF_FUZZ_RUNS=<n> in any tier)."""
    import os
    runs = int(os.environ.get('VERIF_FUZZ_RUNS', '0' if tier == 'quick' else '320000'))
    if not runs:
        return []
    from .. import fuzz
    return [fuzz.fuzz_phase(__name__, runs)]


def phases(tier, seed):
    n = 9600 if tier == 'quick' else 400000
    return [
        Enum('steered', lambda: steered(tier, seed), exhaustive=False,
             note='lengths around the capacity of every listed (version, level, mode) and two-part mixes'),
        Enum('sequences', lambda: sequence_cases(tier), exhaustive=False,
             note='every symbol of Structured Append sequences (lengths 2..99 / ..599 x 3 modes x 8 option sets incl. symbol_count=1); cells are counted as SA-...'),
        Search('generated', gens.make_cases(big=0.05), n),
    ] + _fuzz(tier)
