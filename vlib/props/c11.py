"""C11 - module iteration and per-type colouring classify every module correctly."""
import io

import segno
from segno import consts
from hypothesis import strategies as st

from .. import qrref as R
from .. import colors, raster, vector
from ..common import call, Refused, Crash, enc_content
from ..runner import HarnessError, Dev, Outcome, Enum, Search
from .c09 import make_symbol, symbols
from .c10 import svg_color_rgba

PROPERTY = 'C11'
LEVEL = 'exploration'
RULE = ('(a) exhaustive positions: all 44 symbol sizes x border {0, 1, default, 5} x scale {1, 2, 3} (scale > 1 for the small '
        'sizes in quick): every value yielded by matrix_iter and matrix_iter(verbose=True) is compared with the module '
        'value / the type the ISO function-pattern map assigns to the position; (b) invalid borders and scales must raise '
        'ValueError; (c) Hypothesis: colourful PNG / SVG / PPM with random subsets of the 15 per-type colour options '
        '(incl. None, alpha for PNG; subsets chosen so that 2, 3-4, 5-16 distinct colours occur), parsed with the C09/C10 '
        'readers: every pixel / unit square must have the colour configured for the type of its module, falling back to '
        'dark / light. Non-trivial: every case; distinct by sha1(case). positions_checked counts yielded values.')
ASSUMPTIONS = ['vlib/qrref.py function-pattern map', 'names of the segno.consts.TYPE_* constants are the public vocabulary for the types',
               'vlib/raster.py, vlib/vector.py readers; colourful SVG colours are opaque (no blending model)']
K2 = 'C11/K2-module-8-size-9-typed-format'

TYPE_OF = {
    R.FINDER: ('TYPE_FINDER_PATTERN_LIGHT', 'TYPE_FINDER_PATTERN_DARK'),
    R.SEPARATOR: ('TYPE_SEPARATOR', None),
    R.TIMING: ('TYPE_TIMING_LIGHT', 'TYPE_TIMING_DARK'),
    R.ALIGNMENT: ('TYPE_ALIGNMENT_PATTERN_LIGHT', 'TYPE_ALIGNMENT_PATTERN_DARK'),
    R.FORMAT: ('TYPE_FORMAT_LIGHT', 'TYPE_FORMAT_DARK'),
    R.VERSION: ('TYPE_VERSION_LIGHT', 'TYPE_VERSION_DARK'),
    R.DARKMODULE: (None, 'TYPE_DARKMODULE'),
    R.DATA: ('TYPE_DATA_LIGHT', 'TYPE_DATA_DARK'),
}
OPTION_OF = {
    'TYPE_FINDER_PATTERN_LIGHT': 'finder_light', 'TYPE_FINDER_PATTERN_DARK': 'finder_dark', 'TYPE_SEPARATOR': 'separator',
    'TYPE_TIMING_LIGHT': 'timing_light', 'TYPE_TIMING_DARK': 'timing_dark', 'TYPE_ALIGNMENT_PATTERN_LIGHT': 'alignment_light',
    'TYPE_ALIGNMENT_PATTERN_DARK': 'alignment_dark', 'TYPE_FORMAT_LIGHT': 'format_light', 'TYPE_FORMAT_DARK': 'format_dark',
    'TYPE_VERSION_LIGHT': 'version_light', 'TYPE_VERSION_DARK': 'version_dark', 'TYPE_DARKMODULE': 'dark_module',
    'TYPE_DATA_LIGHT': 'data_light', 'TYPE_DATA_DARK': 'data_dark', 'TYPE_QUIET_ZONE': 'quiet_zone',
}
DARK_TYPES = {n for n in OPTION_OF if n.endswith('_DARK') or n == 'TYPE_DARKMODULE'}


def type_name_grid(matrix, v, border):
    """Expected type name for every cell of the symbol incl. quiet zone."""
    n = len(matrix)
    cls, _ = R.function_map(v)
    t = n + 2 * border
    g = [['TYPE_QUIET_ZONE'] * t for _ in range(t)]
    for r in range(n):
        for c in range(n):
            name = TYPE_OF[cls[r][c]][1 if matrix[r][c] else 0]
            if name is None:
                name = 'INCONSISTENT-%s-%d' % (R.CLASS_NAMES[cls[r][c]], matrix[r][c])
            g[r + border][c + border] = name
    return g


def is_k2(v, r, c, exp_name, got_name, n):
    return (not R.is_micro(v) and r == 8 and c == n - 9 and exp_name in ('TYPE_DATA_LIGHT', 'TYPE_DATA_DARK')
            and got_name == exp_name.replace('DATA', 'FORMAT'))


def check_iter(case):
    try:
        qr = make_symbol(case['sym'])
    except (Refused, Crash) as ex:
        raise AssertionError('symbol could not be created: %s' % ex)
    v = qr.version
    n = len(qr.matrix)
    scale, border = case['scale'], case['border']
    b = border if border is not None else (2 if n < 21 else 4)
    devs = []
    labels = ['iter', 'version-%s' % v if case.get('label_version') else 'iter-any']
    kw = {'scale': scale, 'border': border}
    try:
        plain = call(lambda: [tuple(r) for r in qr.matrix_iter(**kw)])
        verbose = call(lambda: [tuple(r) for r in qr.matrix_iter(verbose=True, **kw)])
    except Refused as ex:
        return Outcome([Dev('C11/valid-arguments-refused', '%s: %s' % (kw, ex))], labels, True, True)
    except Crash as ex:
        return Outcome([Dev('C11/crash-' + ex.key, str(ex))], labels, True)
    s = int(scale)
    size = (n + 2 * b) * s
    names = type_name_grid(qr.matrix, v, b)
    value_of = {getattr(consts, nm): nm for nm in OPTION_OF}
    for what, rows in (('plain', plain), ('verbose', verbose)):
        if len(rows) != size or any(len(r) != size for r in rows):
            devs.append(Dev('C11/iter-dimensions-' + what, '%d rows of %s values, expected %d' % (len(rows), sorted({len(r) for r in rows})[:3], size)))
    if devs:
        return Outcome(devs, labels, True)
    k2 = 0
    for y in range(size):
        r = y // s
        prow, vrow, nrow = plain[y], verbose[y], names[r]
        for x in range(size):
            c = x // s
            exp_name = nrow[c]
            mr, mc = r - b, c - b
            inside = 0 <= mr < n and 0 <= mc < n
            bit = qr.matrix[mr][mc] if inside else 0
            if prow[x] != bit or prow[x] not in (0, 1):
                devs.append(Dev('C11/plain-value', 'cell (%d,%d) yields %r, module value is %d' % (y, x, prow[x], bit)))
            got = vrow[x]
            got_name = value_of.get(got)
            if inside and bool(got >> 8) != bool(bit):
                devs.append(Dev('C11/type-darkness', 'cell (%d,%d): type %r >> 8 does not match module value %d' % (y, x, got, bit)))
            if got_name != exp_name:
                if is_k2(v, mr, mc, exp_name, got_name, n):
                    k2 += 1
                else:
                    devs.append(Dev('C11/type-%s-reported-as-%s' % (exp_name, got_name),
                                    'version %s module (%d,%d): expected %s, got %s (%r)' % (v, mr, mc, exp_name, got_name, got)))
            if len(devs) > 8:
                break
        if len(devs) > 8:
            break
    if k2:
        devs.append(Dev(K2, 'version %s: module (8, %d) reported as format information' % (v, n - 9)))
    return Outcome(devs, labels, True, counters={'positions_checked': 2 * size * size})


def check_invalid(case):
    qr = make_symbol(case['sym'])
    kw = dict(case['kw'])
    labels = ['invalid-args']
    devs = []
    for verbose in (False, True):
        try:
            call(lambda: list(qr.matrix_iter(verbose=verbose, **kw)))
            devs.append(Dev('C11/invalid-argument-accepted', 'matrix_iter(verbose=%r, %s) did not raise' % (verbose, kw)))
        except Refused:
            pass
        except Crash as ex:
            devs.append(Dev('C11/crash-' + ex.key, str(ex)))
    return Outcome(devs, labels, True, True)


def expected_colour_grid(qr, border, opts, dflt_dark, dflt_light):
    """RGBA (or None) per cell."""
    v = qr.version
    names = type_name_grid(qr.matrix, v, border)
    dark = colors.rgba_of(opts['dark']) if 'dark' in opts else dflt_dark
    light = colors.rgba_of(opts['light']) if 'light' in opts else dflt_light
    cmap = {}
    for nm, opt in OPTION_OF.items():
        if opt in opts:
            cmap[nm] = colors.rgba_of(opts[opt])
        else:
            cmap[nm] = dark if nm in DARK_TYPES else light
    return [[cmap[nm] for nm in row] for row in names], cmap, names


def check_colourful(case):
    try:
        qr = make_symbol(case['sym'])
    except (Refused, Crash) as ex:
        raise AssertionError('symbol could not be created: %s' % ex)
    kind = case['kind']
    opts = dict(case['opts'])
    scale = opts.pop('scale', 1)
    border = opts.pop('border', None)
    n = len(qr.matrix)
    v = qr.version
    b = border if border is not None else (2 if n < 21 else 4)
    kw = {k: colors.to_arg(val) for k, val in opts.items()}
    kw['scale'] = scale
    kw['border'] = border
    labels = ['colourful-' + kind]
    try:
        buf = io.BytesIO()
        call(qr.save, buf, kind=kind, **kw)
        data = buf.getvalue()
    except Refused as ex:
        if kind == 'ppm' and any(val is None for val in opts.values()):
            return Outcome((), labels + ['ppm-transparency-refused'], True, True)
        return Outcome([Dev('C11/valid-colours-refused-' + kind, '%s: %s' % (opts, ex))], labels, True, True)
    except Crash as ex:
        return Outcome([Dev('C11/crash-%s-%s' % (kind, ex.key), str(ex))], labels, True)
    dflt_dark = (0, 0, 0, 255)
    dflt_light = None if kind == 'svg' else (255, 255, 255, 255)
    exp, cmap, names = expected_colour_grid(qr, b, opts, dflt_dark, dflt_light)
    ncol = len(set(cmap[nm] for nm in cmap if not (R.is_micro(v) and nm in ('TYPE_VERSION_DARK', 'TYPE_VERSION_LIGHT', 'TYPE_DARKMODULE',
                                                                        'TYPE_ALIGNMENT_PATTERN_DARK', 'TYPE_ALIGNMENT_PATTERN_LIGHT'))))
    labels.append('colours-%s' % (ncol if ncol <= 2 else ('3-4' if ncol <= 4 else '5+')))
    if kind == 'ppm' and any(val is None for val in [cmap[nm] for nm in cmap]):
        return Outcome([Dev('C11/ppm-transparency-accepted', 'a transparent colour was accepted by the PPM writer')], labels, True)
    t = n + 2 * b
    s = int(scale)
    devs = []
    bad = []
    k2 = 0

    def note(r, c, got, e):
        nonlocal k2
        mr, mc = r - b, c - b
        nm = names[r][c]
        if not R.is_micro(v) and mr == 8 and mc == n - 9 and nm in ('TYPE_DATA_LIGHT', 'TYPE_DATA_DARK') \
                and same(got, cmap[nm.replace('DATA', 'FORMAT')]):
            k2 += 1
        else:
            bad.append((r, c, nm, got, e))

    def same(got, e):
        if e is None or (kind == 'svg' and e[3] == 0):
            # nothing visible is painted: transparent, or (SVG) whatever lies beneath
            return got is None or got[3] == 0 or (kind == 'svg' and got == beneath)
        return got is not None and tuple(got) == tuple(e)
    beneath = None
    try:
        if kind in ('png', 'ppm'):
            if kind == 'png':
                w, h, px, info = raster.read_png(data)
                labels.append('png-depth%d' % info['depth'])
            else:
                w, h, maxval, rows = raster.read_ppm(data)
                px = [[tuple(p) + (255,) for p in row] for row in rows]
            if (w, h) != (t * s, t * s):
                devs.append(Dev('C11/dimensions-' + kind, '%dx%d, expected %d' % (w, h, t * s)))
            else:
                for y in range(h):
                    r = y // s
                    for x in range(w):
                        c = x // s
                        if not same(px[y][x], exp[r][c]):
                            note(r, c, px[y][x], exp[r][c])
        else:
            d = vector.read_svg(data)
            fs = vector.F(str(scale))
            if any(abs(p - t * fs) > vector.F(1, 10 ** 6) * t * fs for p in d['page']):
                devs.append(Dev('C11/svg-page', 'page %s, expected %s' % ([float(p) for p in d['page']], float(t * fs))))
            scales = {sc for (*_x, sc) in d['segments'] if _x[0] is not None} | {bg[2] for bg in d['backgrounds']}
            if any(abs(sc - fs) > vector.F(1, 10 ** 6) * fs for sc in scales):
                devs.append(Dev('C11/svg-scale', 'paths are scaled by %s, expected %s' % (sorted(float(x) for x in scales), float(fs))))
            painted = [[None] * t for _ in range(t)]
            for fill, rect, sc, pos in d['backgrounds']:
                if tuple(rect) != (0, 0, t, t):
                    devs.append(Dev('C11/svg-background', 'rectangle %s' % ([float(x) for x in rect],)))
                col = svg_color_rgba(fill, False)
                if pos != 0 and col[3] != 0:
                    # painter's model: a page-filling rectangle hides every stroke written before it
                    devs.append(Dev('C11/svg-background-order', 'the background rectangle is element %d of the picture: the %d stroke path(s) before it are painted over'
                                    % (pos, d['order'][:pos].count('path'))))
                beneath = tuple(col[:3]) + (int(round(float(col[3]) * 255)),)
                for r in range(t):
                    for c in range(t):
                        painted[r][c] = col
            for (col, x1, y, x2, lw, sc) in d['segments']:
                if col is None:
                    continue
                g = vector.grid_from_segments([(x1, y, x2, lw)], t)
                rgba = svg_color_rgba(col, False)
                if rgba[3] == 0:
                    continue  # an invisible stroke leaves what is beneath
                r = int(vector.snap(y) - vector.F(1, 2))
                for c in range(t):
                    if g[r][c]:
                        painted[r][c] = rgba
            for r in range(t):
                for c in range(t):
                    got = painted[r][c]
                    got8 = None if got is None else tuple(got[:3]) + (int(round(float(got[3]) * 255)),)
                    if not same(got8, exp[r][c]):
                        note(r, c, got8, exp[r][c])
    except (raster.Unsupported, vector.Unsupported) as ex:
        raise HarnessError('reader limitation (%s): %s' % (kind, ex))
    except (raster.FormatError, vector.FormatError) as ex:
        devs.append(Dev('C11/malformed-' + kind, str(ex)))
    if bad:
        r, c, nm, got, e = bad[0]
        devs.append(Dev('C11/colour-of-%s-%s' % (nm, kind), '%d cells wrong; first: version %s cell (%d,%d) type %s painted %s, configured %s'
                        % (len(bad), v, r - b, c - b, nm, got, e)))
    if k2:
        devs.append(Dev(K2, 'version %s: module (8, %d) painted with the format colour' % (v, n - 9)))
    return Outcome(devs, labels, True)


def check_case(case):
    k = case.get('what')
    if k == 'iter':
        return check_iter(case)
    if k == 'invalid':
        return check_invalid(case)
    return check_colourful(case)


def iter_cases(tier):
    cases = []
    for v in R.ALL_VERSIONS:
        for ci, content in enumerate(('1', '98765')):
            sym = {'content': enc_content(content), 'kw': {'version': v, 'mask': (ci * 3 + 1) % R.n_masks(v)}}
            for border in (0, 1, None, 5):
                for scale in (1, 2, 3):
                    if scale > 1 and tier == 'quick' and not (R.is_micro(v) or v <= 6 or v in (7, 20, 40) and border == 0):
                        continue
                    if ci == 1 and (border not in (None, 0) or scale > 1):
                        continue
                    cases.append({'what': 'iter', 'sym': sym, 'scale': scale, 'border': border, 'label_version': True})
    # quiet zone as wide as / wider than the symbol
    for v in list(R.MICRO) + [1, 2, 7]:
        n = R.size_of(v)
        sym = {'content': enc_content('1'), 'kw': {'version': v, 'mask': 1}}
        for border in (n - 1, n, n + 1, 2 * n + 3):
            for scale in (1, 2):
                cases.append({'what': 'iter', 'sym': sym, 'scale': scale, 'border': border})
    # float scales are truncated
    sym = {'content': enc_content('1'), 'kw': {'version': 2, 'mask': 0}}
    for scale in (1.5, 2.9, 3.0):
        cases.append({'what': 'iter', 'sym': sym, 'scale': scale, 'border': 2})
    return cases


def invalid_cases():
    cases = []
    for v in ('M2', 1, 7):
        sym = {'content': enc_content('1'), 'kw': {'version': v, 'mask': 0}}
        for kw in ({'border': -1}, {'border': 1.5}, {'border': -2}, {'border': 0.5}, {'scale': 0}, {'scale': -1}, {'scale': -2},
                   {'scale': 0, 'border': 0}, {'scale': 2, 'border': -1}, {'scale': -0.5},
                   # a scale below 1 is truncated to 0 modules per pixel: nothing sensible can be yielded
                   {'scale': 0.5}, {'scale': 0.99}, {'scale': 0.1, 'border': 0}):
            cases.append({'what': 'invalid', 'sym': sym, 'kw': kw})
    return cases


ALL_OPTS = sorted(OPTION_OF.values())


def respell(spec):
    """An equivalent notation of an opaque colour specification."""
    if spec is None:
        return None
    r, g, b = colors.rgba_of(spec)[:3]
    if isinstance(spec, str) and not spec.startswith('#'):
        return '#%02x%02x%02x' % (r, g, b)
    if isinstance(spec, list):
        return '#%02X%02X%02X' % (r, g, b)
    if len(spec) == 4:
        return '#%s%s%s' % tuple(c * 2 for c in spec[1:])
    for name, val in colors.NAMED.items():
        if val == (r, g, b):
            return name.upper()
    return [r, g, b]


def option_grid():
    """Every per-type option alone (and together with dark / light) x border {0, default} x kind."""
    cases = []
    syms = [{'content': enc_content('12345'), 'kw': {'version': 2, 'mask': 1}}, {'content': enc_content('7'), 'kw': {'version': 7, 'mask': 3}},
            {'content': enc_content('1'), 'kw': {'version': 'M3', 'mask': 0}}]
    for si, sym in enumerate(syms):
        for opt in ALL_OPTS:
            for border in (0, None):
                for kind in ('png', 'svg', 'ppm'):
                    for variant in range(3):
                        opts = {opt: ('#ff0000', 'blue', [0, 128, 0])[variant]}
                        if variant == 1:
                            opts.update(dark='#101010', light='#eeeeee')
                        elif variant == 2:
                            # the same colour as the default of the tone in another notation
                            opts = {opt: 'black' if opt.endswith('_dark') or opt == 'dark_module' else 'WHITE', 'light': '#fff', 'dark': '#000000'}
                        if border is not None:
                            opts['border'] = border
                        opts['scale'] = 1
                        if (si + variant) % 2 and kind != 'ppm':
                            opts['scale'] = 2
                        if kind == 'svg' and border is None and variant < 2:
                            # the same picture with shorter path elements (no class attribute)
                            cases.append({'what': 'colourful', 'sym': sym, 'kind': kind, 'opts': dict(opts, lineclass=None)})
                        cases.append({'what': 'colourful', 'sym': sym, 'kind': kind, 'opts': opts})
    return cases


@st.composite
def colourful_cases(draw):
    sym, v = draw(symbols())
    if draw(st.integers(0, 3)) == 0:
        # versions with version information / several alignment patterns
        v = draw(st.sampled_from([7, 8, 14]))
        sym = {'content': sym['content'], 'kw': {'version': v, 'mask': draw(st.integers(0, 7))}}
    kind = draw(st.sampled_from(['png', 'png', 'svg', 'ppm']))
    size = draw(st.sampled_from([0, 1, 1, 2, 2, 3, 5, 8, 15]))
    chosen = draw(st.permutations(ALL_OPTS))[:size]
    if kind == 'png':
        colour = colors.with_alpha(none_ok=True)
    elif kind == 'svg':
        # opaque or invisible (alpha exactly 0 in every notation); no blending model for other alphas
        colour = st.one_of(colors.opaque(none_ok=True), colors.opaque(none_ok=True), colors.opaque(none_ok=True),
                           st.sampled_from(['#ff000000', '#f000', [255, 0, 0, 0], [0, 0, 255, 0.0], '#00000000', [255, 255, 255, 0]]))
    else:
        colour = colors.opaque()
    # a small pool makes equal colours (and thereby 2 / 3 / 4 distinct colours) likely
    pool = [draw(colour) for _ in range(draw(st.integers(1, 4)))]
    opts = {}
    for name in chosen:
        opts[name] = draw(st.sampled_from(pool)) if draw(st.integers(0, 2)) else draw(colour)
        if draw(st.integers(0, 3)) == 0 and opts[name] is not None and colors.rgba_of(opts[name])[3] == 255:
            opts[name] = respell(opts[name])  # the same colour in another notation
    if draw(st.integers(0, 9)) < 5:
        opts['dark'] = draw(st.sampled_from(pool)) if draw(st.booleans()) else draw(colour)
    if draw(st.integers(0, 9)) < 5:
        opts['light'] = draw(st.sampled_from(pool)) if draw(st.booleans()) else draw(colour)
    if kind == 'svg' and opts.get('dark', 'x') is None:
        del opts['dark']
    n = R.size_of(v)
    cap = max(1, 300 // (n + 8))
    sc = min(cap, draw(st.sampled_from([1, 1, 2, 3, 4])))
    if kind == 'svg':
        sc = draw(st.sampled_from([1, 2, 1.5, 0.5, 3]))
        # options which change the text of the document (and thereby e.g. the length of a path element), not the picture
        for name, vals in (('lineclass', [None, '', 'a-rather-long-class-name another-one']), ('svgclass', [None, 'x']), ('nl', [False]),
                           ('xmldecl', [False]), ('svgns', [False]), ('omitsize', [True])):
            if draw(st.integers(0, 5)) == 0:
                opts[name] = draw(st.sampled_from(vals))
    opts['scale'] = sc
    b = draw(st.sampled_from([None, 0, 1, 4]))
    if b is not None:
        opts['border'] = b
    return {'what': 'colourful', 'sym': sym, 'kind': kind, 'opts': opts}


def required_labels(tier):
    return ['iter', 'invalid-args', 'colourful-png', 'colourful-svg', 'colourful-ppm', 'colours-2', 'colours-3-4', 'colours-5+',
            'version-M1', 'version-M4', 'version-1', 'version-7', 'version-40']


def phases(tier, seed):
    n = 3200 if tier == 'quick' else 150000
    return [
        Enum('all-positions', lambda: iter_cases(tier), exhaustive=True,
             note='every module position of all 44 symbol sizes x border x scale, plain and verbose iteration'),
        Enum('invalid-arguments', invalid_cases, exhaustive=True),
        Enum('single-option-grid', option_grid, exhaustive=True,
             note='each of the 15 per-type options alone / with dark+light / in another notation x border {0, default} x png, svg, ppm x 3 symbols'),
        Search('colourful', colourful_cases(), n),
    ]
