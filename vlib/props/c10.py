"""C10 - vector outputs (SVG, EPS, PDF, LaTeX) paint exactly the dark modules."""
import io
import re
from fractions import Fraction as F

import segno
from hypothesis import strategies as st

from .. import qrref as R
from .. import colors, vector
from ..common import call, Refused, Crash
from ..runner import HarnessError, Dev, Outcome, Enum, Search
from .c09 import make_symbol, symbols

PROPERTY = 'C10'
LEVEL = 'exploration'
RULE = ('Hypothesis cases: symbol (44 sizes) x kind in {svg, eps, pdf, tex} x scale in {1, 2, 3, 10, 0.1, 0.25, 0.5, 1.25, '
        '1.5, 2.5, 3.3, 7.7, ...} x border x dark x light (None, names, hex, tuples; alpha for SVG; float tuples for '
        'EPS/PDF) x SVG options (unit, omitsize, svgversion, draw_transparent, xmldecl, svgns, nl, title/desc with '
        '<&">, svgid/svgclass/lineclass, encoding) x TeX options (unit, url, colour name) x PDF compresslevel. Oracle: '
        'each document is interpreted (XML + path grammar; mini PostScript; PDF objects, xref, content stream with CTM; '
        'pgf commands) with exact Fractions; the stroked segments, mapped to module units by the scale the document '
        'itself declares (tolerance 1e-6), must cover every dark module exactly once, no light module, nothing outside '
        'the page; page = (size+2b)*scale; stroke colour = requested dark; a requested light colour covers the whole '
        'page. Non-trivial: document produced and (scale != 1 or light given or border given); distinct by sha1(case).')
ASSUMPTIONS = ['vlib/vector.py interpreters (self-tested on hand-written documents)', 'tolerance 1e-6 relative for printed floats',
               'integer tuple colours containing the value 1 are not generated for EPS/PDF (1 means full intensity there by design)']
TOL = F(1, 10 ** 6)


def close(a, b, tol=TOL):
    return abs(F(a) - F(b)) <= tol * max(1, abs(F(b)))


def expected_grid(matrix, border):
    n = len(matrix)
    t = n + 2 * border
    g = [[0] * t for _ in range(t)]
    for r in range(n):
        row = matrix[r]
        for c in range(n):
            g[r + border][c + border] = row[c]
    return g, t


def cover_devs(kind, segs, grid, t):
    try:
        got = vector.grid_from_segments(segs, t)
    except vector.Unsupported as ex:
        raise HarnessError('reader limitation (%s): %s' % (kind, ex))
    except vector.FormatError as ex:
        return [Dev('C10/segments-%s' % kind, str(ex))]
    if got != grid:
        miss = sum(1 for r in range(t) for c in range(t) if grid[r][c] and not got[r][c])
        extra = sum(1 for r in range(t) for c in range(t) if got[r][c] and not grid[r][c])
        twice = sum(1 for r in range(t) for c in range(t) if got[r][c] > 1)
        return [Dev('C10/coverage-%s' % kind, '%d dark modules not painted, %d light modules painted, %d painted more than once'
                    % (miss, extra, twice))]
    return []


def svg_color_rgba(value, svg2):
    """Parses the stroke / fill value written by segno back into RGBA (alpha 0..1 as Fraction)."""
    op = None
    if isinstance(value, tuple):
        value, op = value
    m = re.fullmatch(r'rgba\((\d+),(\d+),(\d+),([0-9.]+)\)', value)
    if m:
        return tuple(int(m.group(i)) for i in (1, 2, 3)) + (F(m.group(4)),)
    low = value.lower()
    if low in colors.NAMED:
        rgb = colors.NAMED[low]
    elif re.fullmatch(r'#[0-9a-fA-F]{3}', value):
        rgb = tuple(int(c * 2, 16) for c in value[1:])
    elif re.fullmatch(r'#[0-9a-fA-F]{6}', value):
        rgb = tuple(int(value[i:i + 2], 16) for i in (1, 3, 5))
    else:
        raise vector.FormatError('unknown colour value %r' % (value,))
    return rgb + (F(op) if op is not None else F(1),)


def svg_color_ok(written, spec, svg2):
    exp = colors.rgba_of(spec)
    got = svg_color_rgba(written, svg2)
    if tuple(got[:3]) != tuple(exp[:3]):
        return False
    # alpha is printed with two decimals
    return abs(got[3] - F(exp[3]) / 255) <= F(6, 1000)


def float_rgb(spec):
    """Expected DeviceRGB triple for EPS / PDF."""
    if isinstance(spec, list) and any(isinstance(v, float) for v in spec):
        return tuple(F(str(v)) if isinstance(v, float) else F(v, 255) for v in spec)
    r = colors.rgba_of(spec)
    return tuple(F(v, 255) for v in r[:3])


def rgb_close(got, exp, tol):
    return all(abs(F(g) - e) <= tol for g, e in zip(got, exp))


def check_case(case):
    try:
        qr = make_symbol(case['sym'])
    except (Refused, Crash) as ex:
        raise AssertionError('symbol for the writer check could not be created: %s' % ex)
    kind = case['kind']
    opts = dict(case['opts'])
    scale = opts.get('scale', 1)
    border = opts.get('border')
    n = len(qr.matrix)
    b = border if border is not None else (2 if n < 21 else 4)
    fs = F(str(scale))
    labels = ['kind-' + kind, 'scale-%s' % ('1' if scale == 1 else ('lt1' if scale < 1 else ('int' if scale == int(scale) else 'frac')))]
    kw = dict(opts)
    for k in ('dark', 'light'):
        if k in kw:
            kw[k] = colors.to_arg(kw[k])
    binary = kind in ('svg', 'pdf')
    try:
        buf = io.BytesIO() if binary else io.StringIO()
        call(qr.save, buf, kind=kind, **kw)
        data = buf.getvalue()
    except Refused as ex:
        if scale <= 0:
            return Outcome((), labels + ['refused-scale'], True, True)
        return Outcome([Dev('C10/valid-options-refused-' + kind, '%s refused: %s' % (opts, ex))], labels, True, True)
    except Crash as ex:
        return Outcome([Dev('C10/crash-%s-%s' % (kind, ex.key), str(ex))], labels + ['crash'], True)
    if scale <= 0:
        return Outcome([Dev('C10/non-positive-scale-accepted-' + kind, 'scale=%r' % (scale,))], labels, True)
    grid, t = expected_grid(qr.matrix, b)
    page = t * fs
    devs = []
    dark = opts.get('dark', 'black')
    light = opts.get('light')
    try:
        if kind == 'svg':
            devs += check_svg(data, opts, grid, t, fs, page, dark, light, labels)
        elif kind == 'eps':
            d = vector.read_eps(data)
            if not all(close(p, page) for p in d['page']):
                devs.append(Dev('C10/page-eps', 'BoundingBox %s, expected %s' % ([float(p) for p in d['page']], float(page))))
            if not close(d['scale'], fs):
                devs.append(Dev('C10/scale-eps', 'scale %s, expected %s' % (float(d['scale']), float(fs))))
            segs = [(x1, t - y, x2, lw) for (c, x1, y, x2, lw) in d['segments_up']]
            devs += cover_devs(kind, segs, grid, t)
            exp = float_rgb(dark)
            for c in {c for (c, *_r) in d['segments_up']}:
                if not rgb_close(c, exp, F(1, 10 ** 6)):
                    devs.append(Dev('C10/dark-colour-eps', 'stroke colour %s, expected %s' % ([float(x) for x in c], [float(x) for x in exp])))
            if (light is not None) != (d['background'] is not None):
                devs.append(Dev('C10/background-eps', 'light=%r, background %s' % (light, d['background'])))
            elif light is not None and not rgb_close(d['background'], float_rgb(light), F(1, 10 ** 6)):
                devs.append(Dev('C10/light-colour-eps', 'background %s for %r' % ([float(x) for x in d['background']], light)))
        elif kind == 'pdf':
            d = vector.read_pdf(data)
            if not all(close(p, page) for p in d['page']):
                devs.append(Dev('C10/page-pdf', 'MediaBox %s, expected %s' % ([float(p) for p in d['page']], float(page))))
            if not d['length_ok']:
                devs.append(Dev('C10/pdf-length', '/Length of the content stream is wrong'))
            wrong = sorted(k for k, ok in d['xref_ok'].items() if not ok)
            if wrong:
                devs.append(Dev('C10/pdf-xref', 'cross-reference entries of defined objects %s are wrong' % wrong))
            segs = [(x1 / fs, t - y / fs, x2 / fs, lw / fs) for (c, x1, y, x2, lw) in d['segments_page']]
            devs += cover_devs(kind, segs, grid, t)
            exp = float_rgb(dark)
            for c in {c for (c, *_r) in d['segments_page']}:
                if not rgb_close(c, exp, F(1, 10 ** 9)):
                    devs.append(Dev('C10/dark-colour-pdf', 'stroke colour %s, expected %s' % ([float(x) for x in c], [float(x) for x in exp])))
            if light is not None:
                r = d['bg_rect']
                if r is None or d['background'] is None:
                    devs.append(Dev('C10/background-pdf', 'no background rectangle for light=%r' % (light,)))
                else:
                    if not (r[0] <= 0 and r[1] <= 0 and r[0] + r[2] >= page * (1 - TOL) and r[1] + r[3] >= page * (1 - TOL)):
                        devs.append(Dev('C10/background-pdf', 'rectangle %s does not cover the page %s' % ([float(x) for x in r], float(page))))
                    if not rgb_close(d['background'], float_rgb(light), F(1, 10 ** 9)):
                        devs.append(Dev('C10/light-colour-pdf', 'background %s for %r' % ([float(x) for x in d['background']], light)))
            elif d['background'] is not None:
                devs.append(Dev('C10/background-pdf', 'background painted without light colour'))
        else:
            d = vector.read_tex(data)
            if not close(d['linewidth'], fs):
                devs.append(Dev('C10/linewidth-tex', '%s, expected %s' % (float(d['linewidth']), float(fs))))
            if d['unit'] != opts.get('unit', 'pt'):
                devs.append(Dev('C10/unit-tex', '%r' % d['unit']))
            segs = [(x1 / fs, -y / fs + F(1, 2), x2 / fs, F(1)) for (x1, y, x2) in d['segments_down']]
            devs += cover_devs(kind, segs, grid, t)
            want = opts.get('dark', 'black')
            if (d['color'] or 'black') != (want or 'black'):
                devs.append(Dev('C10/dark-colour-tex', '%r, expected %r' % (d['color'], want)))
            if d['url'] != opts.get('url'):
                devs.append(Dev('C10/url-tex', '%r' % d['url']))
    except vector.Unsupported as ex:
        raise HarnessError('reader limitation (%s): %s' % (kind, ex))
    except vector.FormatError as ex:
        devs.append(Dev('C10/malformed-' + kind, str(ex)))
    nontrivial = scale != 1 or light is not None or border is not None
    if light is not None:
        labels.append('light')
    return Outcome(devs, labels, nontrivial)


def check_svg(data, opts, grid, t, fs, page, dark, light, labels):
    devs = []
    enc = opts.get('encoding', 'utf-8') or 'utf-8'
    xmldecl = opts.get('xmldecl', True)
    try:
        as_text = data.decode(enc).lstrip('\ufeff')
    except UnicodeError as ex:
        return [Dev('C10/svg-encoding', 'document is not in %s: %s' % (enc, ex))]
    if xmldecl != as_text.startswith('<?xml'):
        devs.append(Dev('C10/svg-xmldecl', 'xmldecl=%r' % xmldecl))
    if opts.get('nl', True) != as_text.endswith('\n'):
        devs.append(Dev('C10/svg-nl', 'nl=%r' % opts.get('nl', True)))
    text = data
    if not xmldecl and enc.lower().replace('_', '-') not in ('utf-8', 'utf8'):
        # without declaration a parser assumes UTF-8: decode with the requested encoding first
        text = data.decode(enc).encode('utf-8')
    d = vector.read_svg(text)
    svgns = opts.get('svgns', True)
    if svgns != (d['ns'] == 'http://www.w3.org/2000/svg'):
        devs.append(Dev('C10/svg-namespace', 'svgns=%r, namespace %r' % (svgns, d['ns'])))
    unit = opts.get('unit') or ''
    omitsize = opts.get('omitsize', False)
    if omitsize:
        if 'size' in d or 'viewbox' not in d:
            devs.append(Dev('C10/svg-omitsize', 'width/height present or viewBox missing'))
    else:
        if 'size' not in d:
            devs.append(Dev('C10/svg-size', 'width/height missing'))
        elif d['unit'] != unit:
            devs.append(Dev('C10/svg-unit', 'unit %r, expected %r' % (d['unit'], unit)))
        if unit and 'viewbox' not in d:
            devs.append(Dev('C10/svg-unit', 'unit without viewBox'))
    for key in ('size', 'viewbox'):
        if key in d:
            dims = d[key][-2:]
            if not all(close(p, page) for p in dims):
                devs.append(Dev('C10/page-svg', '%s %s, expected %s' % (key, [float(p) for p in dims], float(page))))
    ver = opts.get('svgversion')
    if ver is not None and ver < 2.0:
        if d['attrib'].get('version') != str(ver):
            devs.append(Dev('C10/svg-version', '%r' % d['attrib'].get('version')))
    elif 'version' in d['attrib']:
        devs.append(Dev('C10/svg-version', 'unexpected version attribute'))
    for attr, key, dflt in (('id', 'svgid', None), ('class', 'svgclass', 'segno')):
        want = opts.get(key, dflt) or None
        if d['attrib'].get(attr) != want:
            devs.append(Dev('C10/svg-attribute', '%s=%r, expected %r' % (attr, d['attrib'].get(attr), want)))
    if d['title'] != opts.get('title') or d['desc'] != opts.get('desc'):
        devs.append(Dev('C10/svg-title-desc', 'title %r desc %r' % (d['title'], d['desc'])))
    lineclass = opts.get('lineclass', 'qrline') or None
    if any(c != lineclass for c in d.get('path_classes', [])):
        devs.append(Dev('C10/svg-attribute', 'path class %r, expected %r' % (d.get('path_classes'), lineclass)))
    scales = {sc for (*_x, sc) in d['segments']} | {bg[2] for bg in d['backgrounds']}
    if any(not close(sc, fs) for sc in scales):
        devs.append(Dev('C10/scale-svg', 'scale %s, expected %s' % (sorted(float(x) for x in scales), float(fs))))
    svg2 = ver is not None and ver >= 2.0
    draw_transparent = opts.get('draw_transparent', False)
    dark_segs = []
    for (c, x1, y, x2, lw, sc) in d['segments']:
        if c is None:
            if not draw_transparent:
                devs.append(Dev('C10/svg-stroke-missing', 'path without stroke'))
            continue
        dark_segs.append((x1, y, x2, lw))
        if dark is None or not svg_color_ok(c, dark, svg2):
            devs.append(Dev('C10/dark-colour-svg', 'stroke %r for dark=%r' % (c, dark)))
    if dark is None:
        if dark_segs:
            devs.append(Dev('C10/dark-colour-svg', 'dark=None but stroked paths present'))
    else:
        devs += cover_devs('svg', dark_segs, grid, t)
    if light is not None and not draw_transparent:
        if len(d['backgrounds']) != 1:
            devs.append(Dev('C10/background-svg', '%d background paths' % len(d['backgrounds'])))
        else:
            fill, rect, sc, pos = d['backgrounds'][0]
            if tuple(rect) != (0, 0, t, t):
                devs.append(Dev('C10/background-svg', 'rectangle %s, expected (0,0,%d,%d)' % ([float(x) for x in rect], t, t)))
            if pos != 0:
                devs.append(Dev('C10/background-svg', 'background is not painted first'))
            if not svg_color_ok(fill, light, svg2):
                devs.append(Dev('C10/light-colour-svg', 'fill %r for light=%r' % (fill, light)))
    elif light is None and d['backgrounds']:
        devs.append(Dev('C10/background-svg', 'background without light colour'))
    return devs


@st.composite
def float_color(draw):
    return [draw(st.sampled_from([0.0, 1.0, 0.5, 0.25, 0.2, 0.75, 0.1])) for _ in range(3)]


@st.composite
def no_one(draw):
    """opaque colour without an integer tuple channel of value 1 (EPS / PDF)."""
    c = draw(colors.opaque())
    if isinstance(c, list):
        c = [v if v != 1 else 2 for v in c]
    return c


@st.composite
def vector_cases(draw):
    sym, v = draw(symbols())
    kind = draw(st.sampled_from(['svg', 'svg', 'svg', 'eps', 'pdf', 'pdf', 'tex']))
    opts = {}
    sc = draw(st.sampled_from([1, 1, 2, 3, 10, 0.1, 0.25, 0.5, 1.25, 1.5, 2.5, 3.3, 7.7, 4.4, 0.75, 12.5, 0, -1]))
    if sc != 1 or draw(st.booleans()):
        opts['scale'] = sc
    border = draw(st.sampled_from([None, None, 0, 1, 2, 4, 5, 9]))
    if draw(st.integers(0, 9)) == 0:
        border = draw(st.sampled_from([R.size_of(v) + 1, 2 * R.size_of(v) + 3, 50]))  # wider than the symbol
    if border is not None or draw(st.booleans()):
        opts['border'] = border
    if kind == 'svg':
        def unambiguous(c):
            # an integer alpha of 1 in a tuple cannot be told apart from the float 1.0 (1 == 1.0):
            # ambiguous by API design, not generated
            return c[:3] + [2] if isinstance(c, list) and len(c) == 4 and c[3] == 1 else c
        if draw(st.integers(0, 9)) < 7:
            opts['dark'] = unambiguous(draw(colors.with_alpha(none_ok=False)))
        if draw(st.integers(0, 9)) < 5:
            opts['light'] = unambiguous(draw(colors.with_alpha(none_ok=True)))
            if opts['light'] is not None and draw(st.integers(0, 5)) == 0:
                opts['dark'] = None  # only the background is visible
            # identical dark and light colours are excluded: the picture is one plain square then, and
            # whether the modules are stroked on top of it is not observable
            if opts['light'] is not None and colors.rgba_of(opts['light']) == colors.rgba_of(opts.get('dark', 'black')):
                del opts['light']
        r = draw(st.integers(0, 9))
        if r < 3:
            opts['omitsize'] = True
        elif r < 6:
            opts['unit'] = draw(st.sampled_from(['mm', 'px', 'cm', 'in', 'pt', '%']))
        for name, strat, p in (('svgversion', st.sampled_from([1.1, 1.2, 2.0, 2]), 3), ('xmldecl', st.booleans(), 3),
                               ('svgns', st.booleans(), 3), ('nl', st.booleans(), 3),
                               ('title', st.sampled_from(['a<b', 'x&y', '"q"', "it's", 'Ünïcödé', '']), 2),
                               ('desc', st.sampled_from(['1 < 2 > 0', '&amp;', 'ok']), 2),
                               ('draw_transparent', st.booleans(), 2),
                               ('svgid', st.sampled_from(['qr1', 'a-b', None]), 2),
                               ('svgclass', st.sampled_from(['c1', 'a b', None, '']), 2),
                               ('lineclass', st.sampled_from(['l1', None, 'x y']), 2),
                               ('encoding', st.sampled_from(['utf-8', 'iso-8859-1', 'utf-16', 'ascii']), 1)):
            if draw(st.integers(0, 9)) < p:
                opts[name] = draw(strat)
        if opts.get('encoding') == 'ascii' and any(ord(ch) > 127 for ch in (opts.get('title') or '')):
            opts.pop('encoding')
        if opts.get('encoding') == 'utf-16' and opts.get('xmldecl') is False:
            opts.pop('encoding')
    elif kind in ('eps', 'pdf'):
        if draw(st.integers(0, 9)) < 7:
            opts['dark'] = draw(st.one_of(no_one(), no_one(), float_color()))
        if draw(st.integers(0, 9)) < 5:
            opts['light'] = draw(st.one_of(no_one(), no_one(), float_color()))
        if kind == 'pdf' and draw(st.integers(0, 9)) < 3:
            opts['compresslevel'] = draw(st.integers(0, 9))
    else:
        if draw(st.integers(0, 9)) < 5:
            opts['dark'] = draw(st.sampled_from(['black', 'red', 'blue!50', None]))
        if draw(st.integers(0, 9)) < 3:
            opts['url'] = 'http://example.org/'
        if draw(st.integers(0, 9)) < 3:
            opts['unit'] = draw(st.sampled_from(['mm', 'pt', 'cm']))
    return {'sym': sym, 'kind': kind, 'opts': opts}


def scale_grid():
    """Every scale of a fixed list x light on/off x two symbols for each kind."""
    cases = []
    from ..common import enc_content
    syms = [{'content': enc_content('12345'), 'kw': {'version': 1, 'mask': 2}},
            {'content': enc_content('1'), 'kw': {'version': 'M1', 'mask': 1}},
            {'content': enc_content('7'), 'kw': {'version': 7, 'mask': 5}}]
    scales = [0.1, 0.2, 0.25, 0.3, 0.5, 0.7, 0.9, 1, 1.1, 1.25, 1.5, 1.7, 2, 2.2, 2.5, 2.9, 3, 3.3, 3.7, 4.1, 4.4, 5.5, 6.6, 7.7, 8.8, 9.9, 10, 11.3, 13.7]
    for sym in syms:
        for sc in scales:
            for light in (None, 'white', '#ffff00'):
                for kind in ('svg', 'eps', 'pdf', 'tex'):
                    opts = {'scale': sc}
                    if light and kind != 'tex':
                        opts['light'] = light
                    elif light:
                        continue
                    cases.append({'sym': sym, 'kind': kind, 'opts': opts})
    # alpha values for SVG colours
    for a in range(0, 256, 5):
        cases.append({'sym': syms[0], 'kind': 'svg', 'opts': {'dark': '#ff8000%02x' % a, 'svgversion': 2.0 if a % 2 else 1.1}})
        cases.append({'sym': syms[0], 'kind': 'svg', 'opts': {'dark': [1, 2, 3, a], 'light': '#0000ff%02x' % (255 - a)}})
    # channel values for EPS / PDF given as hex strings
    for v in (0, 1, 2, 127, 254, 255):
        for kind in ('eps', 'pdf'):
            cases.append({'sym': syms[0], 'kind': kind, 'opts': {'dark': '#%02x0000' % v, 'light': '#00%02xff' % v}})
    return cases


def required_labels(tier):
    return ['kind-svg', 'kind-eps', 'kind-pdf', 'kind-tex', 'scale-lt1', 'scale-frac', 'scale-int', 'light', 'refused-scale']


def phases(tier, seed):
    n = 6400 if tier == 'quick' else 200000
    return [
        Enum('scale-grid', scale_grid, exhaustive=True,
             note='29 scales x light on/off x 3 symbols x 4 kinds; SVG alpha values; EPS/PDF channel values'),
        Search('vector', vector_cases(), n),
    ]
