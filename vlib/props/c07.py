"""C07 - most compact applicable mode is chosen; a requested mode is honoured or refused."""
import segno
from hypothesis import strategies as st

from .. import qrref as R
from .. import gens
from ..common import (call, Refused, Crash, dec_content, enc_content, decode_symbol, expected_parts, norm_mode,
                      representable, auto_mode, segment_bits, version_class, stable_hash)
from ..runner import Dev, Outcome, Enum, Search

PROPERTY = 'C07'
LEVEL = 'exploration'
RULE = ('Exhaustive small scope: all 256 one-byte and all 65536 two-byte bytes contents with automatic mode '
        '(micro=False, mask=0); each requested mode x a stratified 4096-element subset of the two-byte space and all '
        'one-byte contents (quick; thorough: every two-byte content x kanji / hanzi / alphanumeric / numeric); longer '
        'class-stratified text and bytes x requested mode x versions incl. Micro from Hypothesis. Oracle: byte '
        'predicates for the five modes typed in from the statement (Shift JIS / GB2312 trail bytes validated); the '
        'mode indicator is read from the symbol by the reference decoder and compared with QRCode.mode. Non-trivial: '
        'non-empty content; distinct by sha1(case).')
ASSUMPTIONS = ['byte predicates in vlib/common.py', 'vlib/qrref.py decoder', 'capacity model for deciding whether a refusal can be an overflow']


def _req_version(kw):
    rv = kw.get('version')
    if rv is None:
        return None
    if isinstance(rv, str) and rv.upper() in R.MICRO:
        return rv.upper()
    return int(rv)


def fits_somewhere(mode, nbytes, kw, fn):
    """Does a single segment of (mode, nbytes) fit an admissible version under the options?"""
    micro = kw.get('micro')
    if fn == 'make_qr':
        micro = False
    elif fn == 'make_micro':
        micro = True
    lvl = kw.get('error')
    lvl = lvl.upper() if isinstance(lvl, str) else None
    req = _req_version(kw)
    for v in ([req] if req is not None else R.ALL_VERSIONS):
        if R.is_micro(v) and (micro is False or kw.get('eci')):
            continue
        if not R.is_micro(v) and micro is True:
            continue
        if v == 'M1' and lvl is not None:
            continue
        use = lvl or ('L' if v != 'M1' else None)
        if use not in R.levels_of(v):
            continue
        b = segment_bits(v, mode, nbytes)
        if b is not None and kw.get('eci') and mode == 'byte':
            b += 12  # an ECI header may precede the segment (judged conservatively: a refusal is wrong only if the segment fits with it)
        if b is not None and b <= R.data_capacity_bits(v, use):
            return True
    return False


def check_case(case):
    content = dec_content(case['content'])
    kw = dict(case['kw'])
    fn = case.get('fn', 'make')
    req_mode = norm_mode(kw.get('mode'))
    labels = ['mode-req-%s' % req_mode]
    try:
        parts = expected_parts(content, kw.get('mode'), kw.get('encoding'))
    except (UnicodeError, LookupError):
        parts = None
    try:
        qr = call(getattr(segno, fn), content, **kw)
        if fn == 'make_sequence':
            seq = call(list, qr)
            if len(seq) != 1:
                return Outcome((), labels + ['sequence-multi'], False)
            qr = seq[0]
            labels.append('sequence-single')
    except Refused as ex:
        devs = []
        # (with eci=True and an explicit encoding the refusal may be "no ECI assignment number known for
        # this encoding", which the documentation allows)
        # (a mask 4..7 is refused when the automatically chosen version is a Micro QR symbol - not a question of the mode)
        if parts is not None and len(parts) == 1 and req_mode != 'INVALID' and not (kw.get('eci') and kw.get('encoding')) \
                and kw.get('mask') in (None, 0, 1, 2, 3, '0', '1', '2', '3'):
            b = parts[0][0]
            mode = req_mode or auto_mode(b)
            if b and representable(mode, b) and fits_somewhere(mode, len(b), kw, fn):
                devs.append(Dev('C07/applicable-mode-refused',
                                'content %r is representable in %s and fits, but was refused: %s' % (b[:12], mode, ex)))
                labels.append('wrongly-refused')
        return Outcome(devs, labels + ['refused'], bool(devs), True)
    except Crash as ex:
        return Outcome([Dev('C07/crash-' + ex.key, str(ex))], labels + ['crash'], True)
    d, devs = decode_symbol('C07', qr)
    if d is None:
        return Outcome(devs, labels + ['undecodable'], True)
    labels.append(version_class(d['version']))
    modes = [s['mode'] for s in d['segments']]
    if len(modes) == 1 and qr.mode != modes[0]:
        devs.append(Dev('C07/reported-mode', 'QRCode.mode is %r, the symbol carries %r' % (qr.mode, modes[0])))
    elif len(modes) > 1 and not (qr.mode is None or (len(set(modes)) == 1 and qr.mode == modes[0])):
        devs.append(Dev('C07/reported-mode', 'QRCode.mode is %r, the symbol carries %r' % (qr.mode, modes)))
    if parts is None:
        devs.append(Dev('C07/accepted-unencodable', 'content cannot be encoded as requested but was accepted'))
        return Outcome(devs, labels, True)
    if len(parts) == 1:
        b = parts[0][0]
        got = b''.join(s['data'] for s in d['segments'])
        if got != b:
            devs.append(Dev('C07/payload', 'decoded %r, expected %r (modes %s)' % (got[:12], b[:12], modes)))
        if not b:
            return Outcome(devs, labels + ['empty'], False)
        if req_mode is None:
            exp = auto_mode(b)
            labels.append('auto-' + exp)
            if modes != [exp]:
                devs.append(Dev('C07/auto-mode-%s-instead-of-%s' % ('+'.join(modes), exp),
                                'content %r: first applicable mode is %s, symbol uses %s' % (b[:12], exp, modes)))
        else:
            if not representable(req_mode, b):
                devs.append(Dev('C07/unrepresentable-accepted-%s' % req_mode,
                                'content %r is not representable in %s but was accepted (symbol uses %s)' % (b[:12], req_mode, modes)))
            elif modes != [req_mode]:
                devs.append(Dev('C07/requested-mode-not-used', 'requested %s, symbol uses %s' % (req_mode, modes)))
            if 'hanzi' in modes and req_mode != 'hanzi':
                devs.append(Dev('C07/hanzi-chosen-automatically', 'modes %s' % modes))
            labels.append('honoured')
    if 'hanzi' in modes and all(p[2] != 'hanzi' for p in parts):
        devs.append(Dev('C07/hanzi-chosen-automatically', 'modes %s' % modes))
    return Outcome(devs, labels, True)


def small_scope(tier):
    cases = [{'fn': 'make', 'content': {'t': 'bytes', 'v': '%02x' % a}, 'kw': {'micro': False, 'mask': 0}} for a in range(256)]
    for a in range(256):
        for b in range(256):
            cases.append({'fn': 'make', 'content': {'t': 'bytes', 'v': '%02x%02x' % (a, b)}, 'kw': {'micro': False, 'mask': 0}})
    return cases


# representative byte values: both sides of every class boundary of the five modes
REP = [0x00, 0x1f, 0x20, 0x24, 0x25, 0x2a, 0x2b, 0x2d, 0x2e, 0x2f, 0x30, 0x35, 0x39, 0x3a, 0x3f, 0x40, 0x41, 0x5a, 0x5b, 0x61, 0x7e, 0x7f,
       0x80, 0x81, 0x82, 0x9f, 0xa0, 0xa1, 0xaa, 0xab, 0xaf, 0xb0, 0xdf, 0xe0, 0xea, 0xeb, 0xec, 0xf7, 0xfa, 0xfb, 0xfc, 0xfd, 0xfe, 0xff]


def longer_scope(tier):
    """All contents of length 3 (and 4) over representative byte values, automatic and requested modes."""
    import itertools
    vals3 = REP if tier == 'thorough' else REP[::2]
    vals4 = REP[::2] if tier == 'thorough' else REP[::5]
    cases = []
    for n, vals in ((3, vals3), (4, vals4)):
        for i, t in enumerate(itertools.product(vals, repeat=n)):
            kw = {'micro': False, 'mask': 0}
            if i % 5 == 1:
                kw['mode'] = ('kanji', 'hanzi', 'alphanumeric', 'numeric')[(i // 5) % 4]
            cases.append({'fn': 'make', 'content': {'t': 'bytes', 'v': bytes(t).hex()}, 'kw': kw})
    return cases


def requested_small(tier, seed):
    cases = []
    for m in gens.MODES:
        for a in range(256):
            cases.append({'fn': 'make', 'content': {'t': 'bytes', 'v': '%02x' % a}, 'kw': {'micro': False, 'mask': 0, 'mode': m}})
    for m in ('kanji', 'hanzi', 'alphanumeric', 'numeric', 'byte'):
        for a in range(256):
            for b in range(256):
                if tier == 'quick' and m in ('kanji', 'hanzi'):
                    if stable_hash(seed, m, a, b) % 16 and b not in (0x3f, 0x40, 0x7e, 0x7f, 0x80, 0xa0, 0xa1, 0xfc, 0xfd, 0xfe, 0xff):
                        continue
                elif tier == 'quick' and stable_hash(seed, m, a, b) % 64:
                    continue
                elif tier == 'thorough' and m == 'byte' and stable_hash(seed, m, a, b) % 16:
                    continue
                cases.append({'fn': 'make', 'content': {'t': 'bytes', 'v': '%02x%02x' % (a, b)},
                              'kw': {'micro': False, 'mask': 0, 'mode': m if (a + b) % 3 else m.upper()}})
    return cases


@st.composite
def text_cases(draw):
    kind = draw(st.integers(0, 9))
    if kind < 5:
        mode = draw(st.sampled_from(gens.MODES))
        n = draw(st.integers(1, 12))
        text = draw(st.text(alphabet=gens.alphabet_for(mode), min_size=n, max_size=n))
        # sometimes break the class with one foreign character
        if draw(st.integers(0, 3)) == 0:
            pos = draw(st.integers(0, len(text)))
            text = text[:pos] + draw(st.sampled_from(['a', ',', 'ä', '0', 'A', ' ', '点', '书', '\n', 'ｱ'])) + text[pos:]
        content = text
        if draw(st.integers(0, 3)) == 0:
            try:
                content = text.encode({'kanji': 'shift_jis', 'hanzi': 'gb2312'}.get(mode, 'iso-8859-1'))
            except UnicodeError:
                pass
    elif kind < 8:
        content = draw(gens.shaped_bytes(max_pairs=6))
    else:
        content = draw(gens.free_text(max_size=12))
    kw = {}
    if draw(st.integers(0, 9)) < 7:
        kw['mode'] = draw(st.sampled_from(list(gens.MODES) + ['Numeric', 'KANJI', 1, 2, 4, 8, 13]))
    fn = draw(st.sampled_from(['make', 'make', 'make', 'make_qr', 'make_micro', 'make_sequence']))
    if fn == 'make_sequence':
        kw['version'] = draw(st.sampled_from([1, 2, 5, 10]))
    elif draw(st.integers(0, 9)) < 5:
        vs = list(R.MICRO) + [1, 2, 5, 10, 27] if fn == 'make' else (list(R.MICRO) if fn == 'make_micro' else [1, 2, 9, 10, 26, 27])
        kw['version'] = draw(st.sampled_from(vs))
    if fn == 'make' and 'version' not in kw and draw(st.booleans()):
        kw['micro'] = draw(st.sampled_from([None, True, False]))
    if draw(st.integers(0, 3)) == 0:
        kw['error'] = draw(st.sampled_from(['L', 'M', 'Q']))
    kw['mask'] = draw(st.integers(0, 3))
    if draw(st.integers(0, 3)) == 0:
        kw['encoding'] = draw(st.sampled_from(['utf-8', 'shift_jis', 'gb2312', 'iso-8859-15', 'utf-16', 'big5', 'gbk', 'ascii', 'iso-8859-1']))
    if fn in ('make', 'make_qr') and draw(st.integers(0, 3)) == 0 and kw.get('micro') is not True \
            and str(kw.get('version', '')).upper() not in R.MICRO:
        kw['eci'] = True
    return {'fn': fn, 'content': enc_content(content), 'kw': kw}


def required_labels(tier):
    return ['sequence-single', 'auto-numeric', 'auto-alphanumeric', 'auto-kanji', 'auto-byte', 'honoured', 'mode-req-hanzi',
            'mode-req-kanji', 'refused', 'M1', 'M2', 'M3', 'M4']


def _fuzz(tier):
    """Coverage-guided phase (atheris), thorough tier (or VERIF_FUZZ_RUNS=<n> in any tier)."""
    import os
    runs = int(os.environ.get('VERIF_FUZZ_RUNS', '0' if tier == 'quick' else '320000'))
    if not runs:
        return []
    from .. import fuzz
    return [fuzz.fuzz_phase(__name__, runs)]


def phases(tier, seed):
    n = 25600 if tier == 'quick' else 600000
    return [
        Enum('all-1-and-2-byte-contents', lambda: small_scope(tier), exhaustive=True,
             note='all 256 + 65536 bytes contents of length 1 and 2, automatic mode'),
        Enum('requested-mode-small', lambda: requested_small(tier, seed), exhaustive=(tier == 'thorough'),
             note='requested mode x one- and two-byte contents'),
        Enum('length-3-4-representative-bytes', lambda: longer_scope(tier), exhaustive=True,
             note='all contents of length 3 and 4 over representative byte values (both sides of every class boundary)'),
        Search('texts', st.one_of(text_cases(), text_cases(), gens.lookalike_case()), n),
    ] + _fuzz(tier)
