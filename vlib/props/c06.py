"""C06 - requested mask is used; automatic mask minimises the ISO penalty score."""
import segno
from hypothesis import strategies as st

from .. import qrref as R
from .. import gens, penalty
from ..common import call, Refused, Crash, dec_content, enc_content, decode_symbol, matrix_of, version_class, stable_hash
from ..runner import Dev, Outcome, Enum, Search

PROPERTY = 'C06'
LEVEL = 'exploration'
RULE = ('Structured Append sequences with each requested mask; cases from the C01 generator with the mask option redrawn: 60% automatic, 40% one of the 8 (4) patterns; '
        'plus an enumeration of all 44 versions (two contents each; thorough: all versions x levels) with automatic '
        'mask and of all 1312 (version, level, mask) triples with a requested mask (thorough; quick: versions <= 8 '
        'and Micro). Oracle for a requested mask: format bits carry it and unmasking with the Table 10 condition on '
        'encoding-region modules gives zero RS syndromes. Oracle for the automatic mask: all candidates are rebuilt '
        'from the emitted matrix (unmask / remask, format + version areas + dark module light) and scored by an '
        'independent N1-N4 / Micro implementation; segno must have chosen the lowest-numbered arg-min (arg-max for '
        'Micro). Non-trivial: requested mask, or automatic mask with >= 2 candidates within 40 points of the best; '
        'distinct by sha1(case).')
ASSUMPTIONS = ['vlib/penalty.py reading of ISO 7.8.3 (dark module and format/version areas light during evaluation; '
               'partial windows at the symbol edge count as light; at an exact 5% step of the dark ratio both N4 '
               'readings k and k-1 are accepted, because float rounding decides there)',
               'vlib/qrref.py mask conditions (Table 10) and decoder']


def check_case(case):
    content = dec_content(case['content'])
    kw = dict(case['kw'])
    try:
        qr = call(getattr(segno, case['fn']), content, **kw)
        if case['fn'] == 'make_sequence':
            qr = call(list, qr)
    except Refused:
        return Outcome((), ('refused',), False, True)
    except Crash as ex:
        return Outcome([Dev('C06/crash-' + ex.key, str(ex))], ('crash',), True)
    if case['fn'] == 'make_sequence':
        outs = [check_symbol(q, kw) for q in qr]
        return Outcome([d for o in outs for d in o.devs], sorted({lb for o in outs for lb in o.labels}) + ['sequence'],
                       any(o.nontrivial for o in outs))
    return check_symbol(qr, kw)


def check_symbol(qr, kw):
    d, devs = decode_symbol('C06', qr)
    if d is None:
        return Outcome(devs, ('undecodable',), True)
    v, mask = d['version'], d['mask']
    labels = [version_class(v)]
    if qr.mask != mask:
        devs.append(Dev('C06/meta-mask', 'object reports mask %r, format bits say %r' % (qr.mask, mask)))
    req = kw.get('mask')
    nontrivial = True
    if req is not None:
        labels.append('requested-mask')
        if int(req) != mask:
            devs.append(Dev('C06/requested-mask-not-used', 'requested %r, format information carries %r' % (req, mask)))
        # decode_symbol already required zero syndromes after unmasking with pattern `mask`
    else:
        labels.append('automatic-mask')
        ok, scores = penalty.best_masks(matrix_of(qr), v, mask)
        micro = R.is_micro(v)
        best = max(scores) if micro else min(scores)
        close = [s for s in scores if abs(s - best) <= (16 if micro else 40)]
        nontrivial = len(close) >= 2
        if len(ok) > 1:
            labels.append('n4-exact-step')
        if mask not in ok:
            devs.append(Dev('C06/not-best-mask-%s' % ('micro' if micro else 'qr'),
                            '%s: segno chose mask %d, reference arg-%s is %s; scores %s'
                            % (v, mask, 'max' if micro else 'min', sorted(ok), scores)))
        labels.append('close-race' if nontrivial else 'clear-winner')
    return Outcome(devs, labels, nontrivial)


@st.composite
def mask_cases(draw):
    case = dict(draw(gens.make_cases(big=0.04)))
    kw = dict(case['kw'])
    kw.pop('mask', None)
    if draw(st.integers(0, 9)) >= 6:
        kw['mask'] = draw(st.integers(0, 7))
    case['kw'] = kw
    return case


def auto_enum(tier, seed):
    cases = []
    for v in R.ALL_VERSIONS:
        lvls = R.levels_of(v) if tier == 'thorough' else R.levels_of(v)[:1]
        for lvl in lvls:
            for k in range(2):
                mode = 'numeric' if R.cci_bits(v, 'byte') is None else 'byte'
                mx = gens.max_len(v, lvl, mode)
                n = 1 + stable_hash(seed, str(v), lvl, k) % mx
                alpha = gens.alphabet_for(mode)
                text = ''.join(alpha[stable_hash(seed, str(v), lvl, k, i) % len(alpha)] for i in range(n))
                kw = {'version': v, 'boost_error': False}
                if lvl:
                    kw['error'] = lvl
                cases.append({'fn': 'make', 'content': enc_content(text), 'kw': kw})
    return cases


def requested_enum(tier, seed):
    cases = []
    for v in R.ALL_VERSIONS:
        if tier == 'quick' and not (R.is_micro(v) or v <= 8 or v in (20, 40)):
            continue
        for lvl in R.levels_of(v):
            for mask in range(R.n_masks(v)):
                kw = {'version': v, 'boost_error': False, 'mask': mask}
                if lvl:
                    kw['error'] = lvl
                n = 1 + stable_hash(seed, str(v), lvl, mask) % max(1, gens.max_len(v, lvl, 'numeric'))
                text = ''.join('0123456789'[stable_hash(seed, str(v), mask, i) % 10] for i in range(n))
                cases.append({'fn': 'make', 'content': enc_content(text), 'kw': kw})
    return cases


def sequence_enum(tier, seed):
    cases = []
    for mask in [None] + list(range(8)):
        for k, extra in enumerate(({'symbol_count': 2}, {'symbol_count': 4}, {'version': 1}, {'version': 3, 'error': 'M'})):
            n = 20 + stable_hash(seed, mask, k) % 40
            text = ''.join('ABCDEFGHIJ0123456789 $%'[stable_hash(seed, mask, k, i) % 23] for i in range(n))
            kw = dict(extra)
            if mask is not None:
                kw['mask'] = mask
            cases.append({'fn': 'make_sequence', 'content': enc_content(text), 'kw': kw})
    return cases


def micro_bulk(tier, seed):
    """Many Micro QR symbols with automatic mask: scoring errors of the edge rule show only for rare
    edge configurations (e.g. a completely dark edge), so volume is needed."""
    cases = []
    n = 24000 if tier == 'quick' else 400000
    for i in range(n):
        h = stable_hash(seed, 'bulk', i)
        v = ('M4', 'M4', 'M4', 'M3', 'M2', 'M1')[h % 6]
        mx = {'M4': 35, 'M3': 23, 'M2': 10, 'M1': 5}[v]
        ln = 1 + (h >> 8) % mx
        digits = ''.join('0123456789'[(h >> (12 + 3 * k)) % 10] if k < 6 else '0123456789'[stable_hash(seed, i, k) % 10] for k in range(ln))
        kw = {'version': v}
        if v != 'M1' and (h >> 4) % 3:
            kw['error'] = ('L', 'M', 'Q')[(h >> 6) % (3 if v == 'M4' else 2)]
        if (h >> 5) % 2:
            kw['boost_error'] = False
        cases.append({'fn': 'make', 'content': enc_content(digits), 'kw': kw})
    return cases


def required_labels(tier):
    return ['sequence', 'automatic-mask', 'requested-mask', 'close-race', 'M1', 'M2', 'M3', 'M4', 'v1-9', 'v10-26', 'v27-40']


def _fuzz(tier):
    """Coverage-guided phase (atheris), thorough tier (or VERIF_FUZZ_RUNS=<n> in any tier)."""
    import os
    runs = int(os.environ.get('VERIF_FUZZ_RUNS', '0' if tier == 'quick' else '320000'))
    if not runs:
        return []
    from .. import fuzz
    return [fuzz.fuzz_phase(__name__, runs)]


def phases(tier, seed):
    n = 9600 if tier == 'quick' else 300000
    return [
        Enum('auto-all-versions', lambda: auto_enum(tier, seed), exhaustive=False),
        Enum('requested-triples', lambda: requested_enum(tier, seed), exhaustive=(tier == 'thorough'),
             note='(version, level, requested mask) triples'),
        Enum('micro-bulk', lambda: micro_bulk(tier, seed), exhaustive=False,
             note='pseudo-random numeric Micro QR symbols (mostly M4) with automatic mask'),
        Enum('sequences', lambda: sequence_enum(tier, seed), exhaustive=False,
             note='Structured Append sequences with every requested mask and the automatic mask'),
        Search('generated', mask_cases(), n),
    ] + _fuzz(tier)
