"""C03 - Reed-Solomon block layout and correctability (fault enumeration)."""
import random

import segno
from hypothesis import strategies as st

from .. import qrref as R
from .. import gens
from ..common import stable_hash, call, Refused, Crash, dec_content, enc_content, decode_symbol, matrix_of, version_class
from ..runner import Dev, Outcome, Enum, Search

PROPERTY = 'C03'
LEVEL = 'fault_enumeration'
RULE = ('All 160 QR + 8 Micro (version, level) layouts are enumerated, each with several data contents '
        '(all-zero, all-0xFF, random bytes / digits; zero codewords exercise the log(0) branch of the RS '
        'division). Per symbol: (1) de-interleaving by the re-derived Table 9 layout must give zero syndromes '
        'for roots alpha^0..alpha^(ec-1); (2) injected faults - maximum weight floor(ec/2) in every block at '
        'once, random weights, bursts of consecutive interleaved codewords (all applied to the module matrix), '
        'and a sweep of single-codeword errors over every codeword position (versions <= 10 in quick, all in '
        'thorough; applied per block) - must be corrected to the identical data bits; (3) floor(ec/2)+1 errors '
        'in one block must not silently give the original (vacuity guard). Non-trivial: >= 1 injected error; '
        'distinct by sha1(case). evaluations counts cases, injected_patterns counts fault patterns.')
ASSUMPTIONS = ['vlib/qrref.py Berlekamp-Massey decoder (self-tested on random codewords for all 18 ec lengths)',
               'single-codeword sweep is applied to the de-interleaved blocks, the other families to the matrix']


def codeword_bit_offsets(v, lvl):
    """Returns dict (block, pos) -> (bit offset in the interleaved stream, width)."""
    layout = R.block_layout(v, lvl)
    half = v in ('M1', 'M3')
    order = []
    maxd = max(d for t, d in layout)
    for i in range(maxd):
        for b, (t, d) in enumerate(layout):
            if i < d:
                order.append((b, i))
    maxe = max(t - d for t, d in layout)
    for i in range(maxe):
        for b, (t, d) in enumerate(layout):
            if i < t - d:
                order.append((b, d + i))
    res = {}
    off = 0
    for (b, p) in order:
        w = 4 if (half and p == layout[0][1] - 1) else 8
        res[(b, p)] = (off, w)
        off += w
    return res, order


def make_pattern(v, lvl, family, pseed):
    """Deterministic expansion of a pattern descriptor into [(block, pos, magnitude)]."""
    rnd = random.Random(pseed)
    layout = R.block_layout(v, lvl)
    half = v in ('M1', 'M3')

    def mag(b, p):
        if half and p == layout[0][1] - 1:
            return rnd.randrange(1, 16) << 4
        return rnd.choice((0x01, 0x80, 0xff, rnd.randrange(1, 256)))
    errs = []
    if family in ('max', 'random'):
        for b, (t, d) in enumerate(layout):
            cap = (t - d) // 2
            k = cap if family == 'max' else rnd.randint(0, cap)
            for p in rnd.sample(range(t), k):
                errs.append((b, p, mag(b, p)))
    elif family == 'burst':
        _, order = codeword_bit_offsets(v, lvl)
        caps = [(t - d) // 2 for t, d in layout]
        length = max(1, min(len(order), min(caps) * len(layout)))
        while length > 0:
            start = rnd.randrange(0, len(order) - length + 1)
            chunk = order[start:start + length]
            cnt = [0] * len(layout)
            for b, p in chunk:
                cnt[b] += 1
            if all(c <= caps[b] for b, c in enumerate(cnt)):
                errs = [(b, p, mag(b, p)) for b, p in chunk]
                break
            length -= 1
    elif family == 'overload':
        b = rnd.randrange(len(layout))
        t, d = layout[b]
        for p in rnd.sample(range(t), (t - d) // 2 + 1):
            errs.append((b, p, mag(b, p)))
    return errs


def corrupt(matrix, v, lvl, errs):
    offs, _ = codeword_bit_offsets(v, lvl)
    pos = R.data_positions(v)
    m = [list(r) for r in matrix]
    for b, p, e in errs:
        off, w = offs[(b, p)]
        bits = e >> (8 - w) if w == 4 else e
        for k in range(w):
            if (bits >> (w - 1 - k)) & 1:
                r, c = pos[off + k]
                m[r][c] ^= 1
    return m


def check_case(case):
    content = dec_content(case['content'])
    kw = dict(case['kw'])
    try:
        qr = call(getattr(segno, case.get('fn', 'make')), content, **kw)
    except Refused as ex:
        if case.get('layout'):
            return Outcome([Dev('C03/layout-refused', 'content made to fit was refused: %s' % ex)], ('refused',), True, True)
        return Outcome((), ('refused',), False, True)
    except Crash as ex:
        return Outcome([Dev('C03/crash-' + ex.key, str(ex))], ('crash',), True)
    if case.get('fn') == 'make_sequence':
        # "in every symbol": each symbol of a Structured Append sequence
        try:
            seq = call(list, qr)
        except Refused:
            return Outcome((), ('refused',), False, True)
        except Crash as ex:
            return Outcome([Dev('C03/crash-' + ex.key, str(ex))], ('crash',), True)
        outs = [check_symbol(case, q) for q in seq]
        counters = {}
        for o in outs:
            for k, n in o.counters.items():
                counters[k] = counters.get(k, 0) + n
        return Outcome([d for o in outs for d in o.devs], sorted({lb for o in outs for lb in o.labels}) + ['sequence'],
                       any(o.nontrivial for o in outs), counters=counters)
    return check_symbol(case, qr)


def check_symbol(case, qr):
    d, devs = decode_symbol('C03', qr)
    if d is None:
        return Outcome(devs, ('undecodable',), True)
    v, lvl = d['version'], d['level']
    labels = [version_class(v), 'level-%s' % lvl]
    if case.get('layout'):
        labels.append('layout')
        want = case['layout']
        if [str(v), lvl] != want:
            devs.append(Dev('C03/layout-not-honoured', 'asked for %s, got %s-%s' % (want, v, lvl)))
    layout = R.block_layout(v, lvl)
    # block structure as seen by the decoder
    if [(len(dd) + len(ee), len(dd)) for dd, ee in d['blocks']] != layout:
        devs.append(Dev('C03/block-sizes', 'decoder blocks differ from Table 9'))
    if any(d['remainder']):
        devs.append(Dev('C03/remainder-bits', 'remainder bits %s' % d['remainder']))
    counters = {'injected_patterns': 0, 'injected_errors': 0, 'sweep_positions': 0}
    if devs:
        return Outcome(devs, labels, True, counters=counters)
    m = matrix_of(qr)
    ref_bits = d['data_bits']
    ref_payload = [s['data'] for s in d['segments']]
    for fam, pseed in case.get('patterns', ()):
        errs = make_pattern(v, lvl, fam, pseed)
        counters['injected_patterns'] += 1
        counters['injected_errors'] += len(errs)
        labels.append('family-' + fam)
        if not errs:
            continue
        bad = corrupt(m, v, lvl, errs)
        try:
            d2 = R.decode(bad, correct=True)
        except R.SymbolError as ex:
            if fam == 'overload':
                continue
            devs.append(Dev('C03/uncorrectable-' + fam, '%d errors (<= floor(ec/2) per block) not corrected: %s' % (len(errs), ex)))
            continue
        same = d2['data_bits'] == ref_bits and [s['data'] for s in d2['segments']] == ref_payload
        if fam == 'overload':
            if same:
                # floor(ec/2)+1 errors in one block cannot decode to the original codeword
                raise AssertionError('reference decoder returned the original for an overloaded block')
            continue
        if all(d2['rs_ok']):
            raise AssertionError('corruption did not change any syndrome')
        if not same:
            devs.append(Dev('C03/miscorrected-' + fam, '%d errors corrected to different data' % len(errs)))
    sweep = case.get('sweep')
    if sweep:
        step, phase = sweep
        for b, (dd, ee) in enumerate(d['blocks']):
            cw = list(dd) + list(ee)
            n_ec = len(ee)
            half_pos = len(dd) - 1 if v in ('M1', 'M3') else None
            for p in range(phase % step, len(cw), step):
                for e in ((0x10, 0x80, 0xf0) if p == half_pos else (0x01, 0x80, 1 + (p * 37 + b) % 255)):
                    bad = list(cw)
                    bad[p] ^= e
                    counters['sweep_positions'] += 1
                    if R.rs_correct(bad, n_ec) != cw:
                        devs.append(Dev('C03/single-error-not-corrected', 'block %d position %d magnitude %#x' % (b, p, e)))
                        break
        labels.append('sweep')
    nontrivial = counters['injected_errors'] > 0 or counters['sweep_positions'] > 0
    return Outcome(devs, labels, nontrivial, counters=counters)


def _content_for(v, lvl, kind, salt):
    rnd = random.Random(salt)
    modes = [m for m in ('byte', 'alphanumeric', 'numeric') if R.cci_bits(v, m) is not None]
    mode = modes[0]
    mx = gens.max_len(v, lvl, mode)
    if mode == 'byte':
        n = mx if kind != 'random' else rnd.randint(1, mx)
        if kind.startswith('padlike'):
            # data which looks like pad codewords after the 12 / 20 bit header (nibble shifted and plain)
            unit = {'padlike1': b'\xce', 'padlike2': b'\xc1\x1e', 'padlike3': b'\x11', 'padlike4': b'\xec\x11'}[kind]
            n = rnd.randint(max(1, mx // 3), mx)
            return (unit * (n // len(unit) + 1))[:n], 'byte'
        if kind == 'zeros':
            return bytes(n), 'byte'
        if kind == 'ones':
            return b'\xff' * n, 'byte'
        return bytes(rnd.randrange(256) for _ in range(n)), 'byte'
    alpha = gens.alphabet_for(mode)
    n = mx if kind != 'random' else rnd.randint(1, mx)
    if kind == 'zeros':
        return '0' * n, mode
    if kind == 'ones':
        return alpha[-1] * n if mode == 'alphanumeric' else '9' * n, mode
    return ''.join(rnd.choice(alpha) for _ in range(n)), mode


def layout_cases(tier, seed):
    cases = []
    kinds = ('zeros', 'ones', 'random', 'padlike1', 'padlike2', 'padlike3', 'padlike4') if tier == 'quick' else \
        ('zeros', 'ones', 'random', 'random2', 'random3', 'random4', 'padlike1', 'padlike2', 'padlike3', 'padlike4')
    for v in R.ALL_VERSIONS:
        for lvl in R.levels_of(v):
            for ki, kind in enumerate(kinds):
                salt = stable_hash(seed, str(v), lvl, kind)
                content, mode = _content_for(v, lvl, 'random' if kind.startswith('random') else kind, salt)
                if kind.startswith('padlike') and mode != 'byte':
                    continue
                kw = {'version': v, 'boost_error': False, 'mask': salt % R.n_masks(v), 'mode': mode}
                if lvl is not None:
                    kw['error'] = lvl
                if kind == 'random2':
                    del kw['mask']
                pats = [['max', salt], ['random', salt + 1], ['burst', salt + 2], ['overload', salt + 3]]
                if tier == 'thorough':
                    pats += [['max', salt + 10], ['random', salt + 11], ['random', salt + 12], ['burst', salt + 13]]
                case = {'fn': 'make', 'content': enc_content(content), 'kw': kw, 'layout': [str(v), lvl], 'patterns': pats}
                small = R.is_micro(v) or v <= 10
                if kind == 'random':
                    if small or tier == 'thorough':
                        case['sweep'] = [1, 0]
                    else:
                        case['sweep'] = [16, salt % 16]  # every 16th position of the large versions
                cases.append(case)
    return cases


@st.composite
def free_cases(draw):
    case = draw(gens.make_cases(big=0.05, multi=True))
    case = dict(case)
    case['patterns'] = [[draw(st.sampled_from(['max', 'random', 'burst'])), draw(st.integers(0, 2 ** 32))]
                        for _ in range(draw(st.integers(1, 3)))]
    return case


def sequence_cases(tier):
    cases = []
    for ui, unit in enumerate(('1234567890', 'ABC DEF$%', 'abcdefgh', '\x00\xff\xec\x11')):
        for n in range(2, 100 if tier == 'quick' else 400):
            content = (unit * (n // len(unit) + 1))[:n]
            if ui == 3:
                content = content.encode('latin-1')
            for ci, kw in enumerate(({'version': 1}, {'symbol_count': 2}, {'version': 2, 'error': 'Q', 'boost_error': False}, {'symbol_count': 5, 'error': 'H'},
                                     {'symbol_count': 1})):
                if 'version' in kw and n > 150:
                    continue  # keeps clear of the 16 symbol limit (known finding K3 of C08)
                if (n + ci) % 3 and tier == 'quick' and n > 40:
                    continue
                cases.append({'fn': 'make_sequence', 'content': enc_content(content), 'kw': kw,
                              'patterns': [['max', n * 7 + ci], ['random', n + ci]] if (n + ci) % 4 == 0 else []})
    return cases


def required_labels(tier):
    return ['sequence', 'layout', 'sweep', 'family-max', 'family-burst', 'family-random', 'M1', 'M2', 'M3', 'M4', 'v27-40']


def _fuzz(tier):
    """Coverage-guided phase (atheris), thorough tier (or VERIF_FUZZ_RUNS=<n> in any tier)."""
    import os
    runs = int(os.environ.get('VERIF_FUZZ_RUNS', '0' if tier == 'quick' else '96000'))
    if not runs:
        return []
    from .. import fuzz
    return [fuzz.fuzz_phase(__name__, runs)]


def phases(tier, seed):
    n = 4800 if tier == 'quick' else 120000
    return [
        Enum('layouts', lambda: layout_cases(tier, seed), exhaustive=True,
             note='all 168 (version, level) block layouts; per layout several contents x fault families; '
                  'the error patterns themselves are sampled (except the single-codeword sweep)'),
        Enum('sequences', lambda: sequence_cases(tier), exhaustive=False,
             note='every symbol of Structured Append sequences (lengths 2..99 / ..399 x 4 contents x 5 option sets), a quarter with injected faults'),
        Search('free', free_cases(), n),
    ] + _fuzz(tier)
