"""C15 - encoding is pure: deterministic, history-free, thread-safe, idempotent.

The process which runs this module never calls into segno itself: every operation is executed in
forked children.  A child forked directly from this (pristine) process gives the baseline answer;
a *session* child executes a whole generated history, a *schedule* child runs generated threads
under a harness-owned, line-granular scheduler."""
import hashlib
import io
import json
import os
import pickle
import re
import struct
import sys
import threading

import hypothesis
from hypothesis import strategies as st, settings, HealthCheck
from hypothesis.stateful import RuleBasedStateMachine, rule, invariant, precondition, run_state_machine_as_test

from .. import colors
from ..common import dec_content, enc_content, REPO
from ..runner import Dev, Outcome, Enum, Search, Custom, _Failure, HarnessError, case_hash

PROPERTY = 'C15'
LEVEL = 'exploration'
RULE = ('(a) histories: a Hypothesis RuleBasedStateMachine generates sequences (<= 30 steps quick, 50 thorough) of make / '
        'make_qr / make_micro / make_sequence, save in the 12 kinds incl. colourful PNG/SVG/PPM, partially consumed '
        'matrix_iter, terminal, data URIs, repeated calls, re-encoding with the reported version / level / mask '
        '(boost_error=False), the same list object passed twice; the history runs in one child process, every result is '
        'compared with the answer of a pristine process (a fresh fork which executes only that call); after every step '
        'all live symbols must equal their snapshots, arguments must be unchanged and the hash of all module-level lookup '
        'tables must equal the hash at import. (b) schedules: 2-3 threads with 1-3 calls each run under a harness-owned '
        'scheduler (sys.settrace, baton passed after a generated number of executed segno lines); every result must equal '
        'the pristine answer. Non-trivial: history with >= 3 steps incl. a repeated / dependent step, or a schedule with '
        '>= 2 switches while >= 2 threads were inside segno; distinct by sha1(case). (c) thorough: free-running threads '
        'with a tiny switch interval (best effort).')
ASSUMPTIONS = ['line-granular interleavings under the GIL only', 'the pristine answer is computed by the same code in a fresh process (the property is about history / schedule independence, correctness is C01-C13)']


def _ts(kind, data):
    if kind == 'eps':
        return re.sub(rb'%%CreationDate: [^\n]*', b'', data)
    if kind == 'pdf':
        return re.sub(rb'/CreationDate\(D:[^)]*\)', b'', data)
    if kind == 'tex':
        return re.sub(rb'% Date: [^\n]*', b'', data)
    return data


BINARY = ('png', 'svg', 'pdf', 'pbm', 'pam', 'ppm')


# ------------------------------------------------------------------ executed inside children only
def sym_result(qr):
    return ('sym', str(qr.version), qr.error, qr.mask, qr.mode, bool(qr.is_micro), b'|'.join(bytes(r) for r in qr.matrix))


def exec_make(desc):
    import segno
    content = dec_content(desc['content'])
    before = repr(content)
    fn = getattr(segno, desc['fn'])
    kw = desc['kw']
    if desc.get('own'):
        # pass the library's own str objects where an argument equals one of its constants: equal
        # arguments must give equal symbols whichever object carries the value
        from segno import consts
        own = {v: v for v in vars(consts).values() if isinstance(v, str)}
        kw = {k: own.get(v, v) if isinstance(v, str) else v for k, v in kw.items()}
    try:
        res = fn(content, **kw)
        syms = list(res) if desc['fn'] == 'make_sequence' else [res]
    except Exception as ex:  # noqa: BLE001
        return None, ('exc', type(ex).__name__)
    out = ('syms', tuple(sym_result(q) for q in syms))
    if repr(content) != before:
        out = ('ARGUMENT-MODIFIED', before[:60], repr(content)[:60])
    return syms, out


def exec_on_symbol(qr, op):
    """Executes a serialisation / iteration operation on a symbol; returns a picklable result."""
    kind = op['op']
    try:
        if kind == 'save':
            k = op['kind']
            buf = io.BytesIO() if k in BINARY else io.StringIO()
            kw = {a: colors.to_arg(b) for a, b in op['opts'].items()}
            qr.save(buf, kind=k, **kw)
            v = buf.getvalue()
            return ('out', _ts(k, v if isinstance(v, bytes) else v.encode('utf-8')))
        if kind == 'iter':
            it = qr.matrix_iter(scale=op['scale'], border=op['border'], verbose=op['verbose'])
            rows = []
            for i, row in enumerate(it):
                if i >= op['rows']:
                    break
                rows.append(tuple(row))
            del it  # abandoned
            return ('rows', tuple(rows))
        if kind == 'terminal':
            buf = io.StringIO()
            qr.terminal(out=buf, border=op['border'], compact=op['compact'])
            return ('out', buf.getvalue().encode('utf-8'))
        if kind == 'uri':
            kw = {a: colors.to_arg(b) for a, b in op['opts'].items()}
            return ('out', (qr.png_data_uri(**kw) if op['which'] == 'png' else qr.svg_data_uri(**kw)).encode('utf-8'))
        if kind == 'save_fail':
            # the target cannot be opened / written: the call must fail without changing the symbol
            k = op['kind']
            kw = {a: colors.to_arg(b) for a, b in op['opts'].items()}
            try:
                if op.get('how') == 'stream':
                    qr.save(_FailingStream(op.get('after', 0)), kind=k, **kw)
                else:
                    qr.save('/nonexistent-directory-c15/sub/out.' + k, **kw)
            except Exception as ex:  # noqa: BLE001
                return ('failed', type(ex).__name__ in ('OSError', 'FileNotFoundError', 'IOError', 'NotADirectoryError'))
            return ('failed', 'no exception')
        if kind == 'symbol_size':
            return ('val', repr((qr.symbol_size(op['scale'], op['border']), qr.designator, qr.default_border_size)))
    except Exception as ex:  # noqa: BLE001
        return ('exc', type(ex).__name__)
    raise ValueError(kind)


class _FailingStream:
    """A stream whose write() raises OSError after a number of calls."""

    def __init__(self, after):
        self.after = after
        self.name = 'failing'

    def write(self, data):
        if self.after <= 0:
            raise OSError('disk full')
        self.after -= 1
        return len(data)


def table_hash(names=None):
    """Hash of the module-level lookup tables: the containers which are non-empty at import (an
    empty container is a cache or scratch area, not a lookup table).  Returns (hash, names)."""
    import segno
    from segno import consts, encoder, writers, utils, helpers, cli
    h = hashlib.sha1()

    def canon(v, depth=0):
        if isinstance(v, dict):
            return '{' + ','.join(sorted('%s:%s' % (canon(k, depth + 1), canon(x, depth + 1)) for k, x in v.items())) + '}'
        if isinstance(v, (list, tuple)):
            return '[' + ','.join(canon(x, depth + 1) for x in v) + ']'
        if isinstance(v, (set, frozenset)):
            return '<' + ','.join(sorted(canon(x, depth + 1) for x in v)) + '>'
        if isinstance(v, (bytes, bytearray)):
            return 'b' + bytes(v).hex()
        if isinstance(v, (str, int, float, bool, type(None))):
            return repr(v)
        if callable(v):
            return 'fn:' + getattr(v, '__name__', '?')
        return 'obj:' + type(v).__name__
    seen = []
    for mod in (consts, encoder, writers, utils, helpers, cli, segno):
        for name in sorted(vars(mod)):
            v = vars(mod)[name]
            key = '%s.%s' % (mod.__name__, name)
            if names is not None:
                if key not in names:
                    continue
            elif not (isinstance(v, (dict, list, tuple, set, frozenset, bytes, bytearray)) and len(v) and not name.startswith('__')):
                continue
            seen.append(key)
            h.update(('%s=%s;' % (key, canon(v))).encode('utf-8'))
    return h.hexdigest(), frozenset(seen)


def reencode(qr, desc):
    """Re-encodes the content with the reported version / level / mask; returns True / False / None."""
    import segno
    if desc['fn'] == 'make_sequence':
        return None
    kw = dict(desc['kw'])
    kw.update(version=qr.version, error=qr.error, mask=qr.mask, boost_error=False)
    if desc['fn'] == 'make':
        kw['micro'] = None
    elif desc['fn'] == 'make_micro':
        kw.pop('micro', None)
    fn = segno.make if desc['fn'] == 'make' else getattr(segno, desc['fn'])
    try:
        q2 = fn(dec_content(desc['content']), **kw)
    except Exception as ex:  # noqa: BLE001
        return ('exc', type(ex).__name__)
    return q2.matrix == qr.matrix and q2.version == qr.version and q2.error == qr.error and q2.mask == qr.mask


def run_single(resolved):
    """Pristine execution of one self-contained descriptor."""
    if resolved['op'] in ('make',):
        return exec_make(resolved)[1]
    syms, res = exec_make(resolved['sym'])
    if syms is None:
        return ('no-symbol', None)
    return exec_on_symbol(syms[resolved.get('index', 0) % len(syms)], resolved)


# ------------------------------------------------------------------ process plumbing
def _send(fd, obj):
    data = pickle.dumps(obj)
    os.write(fd, struct.pack('>I', len(data)))
    view = memoryview(data)
    while view:
        n = os.write(fd, view[:65536])
        view = view[n:]


def _recv(fd):
    head = b''
    while len(head) < 4:
        chunk = os.read(fd, 4 - len(head))
        if not chunk:
            raise EOFError
        head += chunk
    n = struct.unpack('>I', head)[0]
    buf = bytearray()
    while len(buf) < n:
        chunk = os.read(fd, min(65536, n - len(buf)))
        if not chunk:
            raise EOFError
        buf += chunk
    return pickle.loads(bytes(buf))


def in_child(fn, *args):
    """Runs fn(*args) in a fresh fork of this (pristine) process."""
    r, w = os.pipe()
    pid = os.fork()
    if pid == 0:
        code = 0
        try:
            os.close(r)
            try:
                res = ('ok', fn(*args))
            except BaseException as ex:  # noqa: BLE001
                import traceback
                res = ('child-error', ''.join(traceback.format_exception(ex))[-1500:])
            _send(w, res)
        except BaseException:  # noqa: BLE001
            code = 1
        os._exit(code)
    os.close(w)
    try:
        res = _recv(r)
    except EOFError:
        res = ('child-died', None)
    finally:
        os.close(r)
        os.waitpid(pid, 0)
    return res


_PRISTINE = {}


def pristine(resolved):
    if resolved.get('op') == 'make' and resolved.get('own'):
        resolved = {k: v for k, v in resolved.items() if k != 'own'}
    key = case_hash(resolved)
    if key not in _PRISTINE:
        st_, val = in_child(run_single, resolved)
        if st_ != 'ok':
            raise HarnessError('pristine child failed: %s %s' % (st_, val))
        _PRISTINE[key] = val
    return _PRISTINE[key]


class Session:
    """A child process which executes a history step by step."""

    def __init__(self):
        self.req_r, self.req_w = os.pipe()
        self.res_r, self.res_w = os.pipe()
        self.pid = os.fork()
        if self.pid == 0:
            os.close(self.req_w)
            os.close(self.res_r)
            try:
                self._serve()
            finally:
                os._exit(0)
        os.close(self.req_r)
        os.close(self.res_w)

    def _serve(self):
        slots = []      # list of (descriptor, [QRCode] | None)
        snaps = []      # snapshot per slot
        base, names = table_hash()
        while True:
            try:
                op = _recv(self.req_r)
            except EOFError:
                return
            try:
                res = self._step(op, slots, snaps)
                problems = []
                for i, (desc, syms) in enumerate(slots):
                    if syms is not None and tuple(sym_result(q) for q in syms) != snaps[i]:
                        problems.append('symbol of step %d changed after it was returned' % i)
                if table_hash(names)[0] != base:
                    problems.append('a module-level lookup table was modified')
                _send(self.res_w, ('ok', res, problems))
            except BaseException as ex:  # noqa: BLE001
                import traceback
                _send(self.res_w, ('child-error', ''.join(traceback.format_exception(ex))[-1500:], []))

    @staticmethod
    def _step(op, slots, snaps):
        kind = op['op']
        if kind == 'make':
            syms, res = exec_make(op)
            slots.append((op, syms))
            snaps.append(tuple(sym_result(q) for q in syms) if syms is not None else None)
            return res
        if kind == 'sameobj':
            import segno
            content = dec_content(op['content'])
            a = segno.make(content, **op['kw'])
            b = segno.make(content, **op['kw'])
            return ('same', a.matrix == b.matrix and a.version == b.version, repr(content) == repr(dec_content(op['content'])))
        desc, syms = slots[op['slot']]
        if syms is None:
            return ('no-symbol', None)
        qr = syms[op.get('index', 0) % len(syms)]
        if kind == 'reencode':
            return ('reencode', reencode(qr, desc))
        return exec_on_symbol(qr, op)

    def step(self, op):
        _send(self.req_w, op)
        try:
            return _recv(self.res_r)
        except EOFError:
            return ('child-died', None, [])

    def close(self):
        for fd in (self.req_w, self.res_r):
            try:
                os.close(fd)
            except OSError:
                pass
        try:
            os.kill(self.pid, 9)
        except OSError:
            pass
        try:
            os.waitpid(self.pid, 0)
        except OSError:
            pass


# ------------------------------------------------------------------ history evaluation (pure function of the op list)
def resolve(ops, k):
    """Self-contained descriptor of step k for the pristine process (None if not comparable)."""
    op = ops[k]
    if op['op'] == 'make':
        return op
    if op['op'] in ('sameobj', 'reencode'):
        return None
    creator = ops[op['creator']]
    r = dict(op)
    r.pop('slot', None)
    r.pop('creator', None)
    r['sym'] = creator
    return r


def run_history(ops):
    """Executes the history; returns (devs, info)."""
    devs = []
    sess = Session()
    executed = 0
    try:
        for k, op in enumerate(ops):
            status, res, problems = sess.step(op)
            executed += 1
            if status == 'child-died':
                devs.append(Dev('C15/history-process-died', 'the process executing the history died at step %d (%s)' % (k, op['op'])))
                break
            if status == 'child-error':
                raise HarnessError('session child: %s' % res)
            for p in problems:
                devs.append(Dev('C15/' + ('lookup-table-modified' if 'table' in p else 'returned-symbol-modified'), '%s (after step %d: %s)' % (p, k, op['op'])))
            if isinstance(res, tuple) and res and res[0] == 'ARGUMENT-MODIFIED':
                devs.append(Dev('C15/argument-modified', 'step %d: %s -> %s' % (k, res[1], res[2])))
                continue
            if op['op'] == 'sameobj':
                if res[1] is not True:
                    devs.append(Dev('C15/same-arguments-different-symbol', 'two calls with the same list object differ (step %d)' % k))
                if res[2] is not True:
                    devs.append(Dev('C15/argument-modified', 'list content changed (step %d)' % k))
                continue
            if op['op'] == 'reencode':
                if res[1] is False or (isinstance(res[1], tuple)):
                    devs.append(Dev('C15/reencoding-not-idempotent', 'step %d: re-encoding with the reported version / level / mask gives %r'
                                    % (k, res[1])))
                continue
            r = resolve(ops, k)
            if r is None:
                continue
            exp = pristine(r)
            if res != exp:
                what = op['op'] if op['op'] != 'make' else op['fn']
                devs.append(Dev('C15/history-dependent-%s' % what, 'step %d (%s) differs from the answer of a pristine process: %s vs %s'
                                % (k, what, _brief(res), _brief(exp))))
            if devs:
                break
    finally:
        sess.close()
    return devs, executed


def _brief(res):
    s = repr(res)
    return s if len(s) < 90 else s[:60] + '...' + hashlib.sha1(s.encode()).hexdigest()[:8]


# ------------------------------------------------------------------ schedules
class Sched:
    def __init__(self, jobs, schedule, segno_dir):
        self.jobs = jobs
        self.n = len(jobs)
        self.schedule = list(schedule)
        self.original = list(schedule)
        self.results = [None] * self.n
        self.done = [False] * self.n
        self.cv = threading.Condition()
        self.current = None
        self.budget = 0
        self.inside = [False] * self.n
        self.concurrent_switches = 0
        self.yields = 0
        self.segno_dir = segno_dir

    def _next(self):
        # the generated schedule is applied cyclically until every thread has finished
        for _attempt in range(2):
            while self.schedule:
                tid, lines = self.schedule.pop(0)
                tid %= self.n
                if not self.done[tid]:
                    self.current, self.budget = tid, lines
                    return
            if self.original and not all(self.done):
                self.schedule = list(self.original)
        for tid in range(self.n):
            if not self.done[tid]:
                self.current, self.budget = tid, 10 ** 12
                return
        self.current = None

    def _yield(self, tid):
        with self.cv:
            self.yields += 1
            if sum(self.inside) >= 2:
                self.concurrent_switches += 1
            self._next()
            self.cv.notify_all()
            while self.current != tid:
                self.cv.wait()

    def _tracer(self, tid):
        def local(frame, event, arg):
            if event == 'line':
                self.budget -= 1
                if self.budget <= 0:
                    self._yield(tid)
            return local

        def glob(frame, event, arg):
            if event == 'call' and frame.f_code.co_filename.startswith(self.segno_dir):
                return local
            return None
        return glob

    def _run(self, tid):
        with self.cv:
            while self.current != tid:
                self.cv.wait()
        sys.settrace(self._tracer(tid))
        try:
            self.inside[tid] = True
            try:
                self.results[tid] = self.jobs[tid]()
            except BaseException as ex:  # noqa: BLE001
                self.results[tid] = ('thread-exc', type(ex).__name__, str(ex)[:100])
        finally:
            sys.settrace(None)
            self.inside[tid] = False
            with self.cv:
                self.done[tid] = True
                self._next()
                self.cv.notify_all()

    def run(self):
        ths = [threading.Thread(target=self._run, args=(i,), daemon=True) for i in range(self.n)]
        with self.cv:
            self._next()
        for t in ths:
            t.start()
        for t in ths:
            t.join(120)
        if any(t.is_alive() for t in ths):
            return None
        return self.results


def run_schedule_child(jobs, schedule, free, shared=None):
    import segno
    segno_dir = os.path.dirname(os.path.abspath(segno.__file__))
    shared_syms = None
    if shared is not None:
        shared_syms, _res = exec_make(shared)

    def one(d):
        if d.get('sym') == 'SHARED':
            if shared_syms is None:
                return ('no-symbol', None)
            return exec_on_symbol(shared_syms[d.get('index', 0) % len(shared_syms)], d)
        return run_single(d)

    def job(descs):
        return lambda: [one(d) for d in descs]
    fns = [job(d) for d in jobs]
    if free:
        sys.setswitchinterval(1e-6)
        results = [None] * len(fns)

        def runner(i):
            results[i] = fns[i]()
        ths = [threading.Thread(target=runner, args=(i,)) for i in range(len(fns))]
        for t in ths:
            t.start()
        for t in ths:
            t.join(300)
        return results, 0
    s = Sched(fns, schedule, segno_dir)
    res = s.run()
    # (a thread counts as inside segno from its first traced line; for single pre-emption schedules the
    # second thread has not started yet, so the number of hand-overs is reported instead)
    return res, max(s.concurrent_switches, s.yields if len(schedule) == 3 and schedule[1][1] >= 10 ** 9 else 0)


def run_schedule(case):
    devs = []
    status, val = in_child(run_schedule_child, case['jobs'], [tuple(x) for x in case.get('schedule', [])], bool(case.get('free')),
                           case.get('shared'))
    if status == 'child-died':
        return [Dev('C15/schedule-process-died', 'the process running the threads died')], 0
    if status != 'ok':
        raise HarnessError('schedule child: %s' % val)
    results, switches = val
    if results is None:
        return [Dev('C15/threads-deadlocked', 'threads did not finish within 120 s')], 0
    for tid, (descs, got) in enumerate(zip(case['jobs'], results)):
        if isinstance(got, tuple) and got and got[0] == 'thread-exc':
            devs.append(Dev('C15/thread-exception-%s' % got[1], 'thread %d: %s' % (tid, got[2])))
            continue
        for d, g in zip(descs, got):
            if d.get('sym') == 'SHARED':
                d = dict(d, sym=case['shared'])
            exp = pristine(d)
            if g != exp:
                devs.append(Dev('C15/concurrent-result-differs-%s' % d['op'], 'thread %d: %s differs from the single-threaded answer: %s vs %s'
                                % (tid, d['op'], _brief(g), _brief(exp))))
    return devs, switches


# ------------------------------------------------------------------ check_case
def check_case(case):
    what = case.get('what')
    if what == 'history':
        devs, executed = run_history(case['ops'])
        ops = case['ops']
        kinds = {o['op'] for o in ops}
        nontrivial = len(ops) >= 3 and bool(kinds - {'make'})
        labels = ['history'] + sorted('op-' + k for k in kinds)
        return Outcome(devs, labels, nontrivial, counters={'history_steps': executed})
    devs, switches = run_schedule(case)
    labels = ['schedule-free' if case.get('free') else ('preempt-once' if case.get('once') else 'schedule')]
    if switches >= 2:
        labels.append('concurrent-switches')
    return Outcome(devs, labels, switches >= 2 or bool(case.get('free')) or (bool(case.get('once')) and switches >= 1),
                   counters={'concurrent_switches': switches})


# ------------------------------------------------------------------ generators
SMALL_TEXT = st.one_of(st.sampled_from(['hello ', 'world', '123', '456', 'AB', 'CD', 'ab', 'cd', 'HELLO WORLD', '12345', 'a', '点茗', 'é']),
                       st.text(alphabet='012345ABCDEF abc', min_size=1, max_size=12))


@st.composite
def make_desc(draw):
    fn = draw(st.sampled_from(['make', 'make', 'make', 'make_qr', 'make_micro', 'make_sequence']))
    k = draw(st.integers(0, 9))
    if k < 6 or fn == 'make_sequence':
        content = draw(SMALL_TEXT)
        if fn == 'make_sequence':
            content = content * 4
    elif k < 9 and fn != 'make_micro':
        content = draw(st.lists(SMALL_TEXT, min_size=2, max_size=3))
    else:
        content = draw(st.one_of(st.integers(0, 99999), st.binary(min_size=1, max_size=6)))
    kw = {}
    if fn == 'make_sequence':
        if draw(st.booleans()):
            kw['version'] = draw(st.sampled_from([1, 2]))
        else:
            kw['symbol_count'] = draw(st.integers(1, 3))
    else:
        if draw(st.integers(0, 9)) < 3:
            kw['version'] = draw(st.sampled_from([1, 2, 3, 4] if fn != 'make_micro' else ['M3', 'M4']))
        if fn == 'make' and draw(st.integers(0, 9)) < 4:
            kw['micro'] = draw(st.sampled_from([None, True, False]))
    if draw(st.integers(0, 9)) < 4:
        kw['error'] = draw(st.sampled_from(['L', 'M', 'Q', 'H'] if fn in ('make_qr', 'make_sequence') else ['L', 'M', 'Q']))
    if draw(st.integers(0, 9)) < 3:
        kw['mask'] = draw(st.integers(0, 3))
    if draw(st.integers(0, 9)) < 2:
        kw['boost_error'] = False
    if isinstance(content, str) and draw(st.integers(0, 9)) < 3:
        kw['encoding'] = draw(st.sampled_from(['utf-8', 'utf-16', 'utf-32', 'utf-8-sig', 'shift_jis', 'iso-8859-15', 'utf-16-be', 'cp1252',
                                               'iso-8859-1', 'iso-8859-1', 'latin1', 'ISO-8859-1']))
        if fn in ('make', 'make_qr') and draw(st.booleans()):
            kw['eci'] = True
    if isinstance(content, list) and draw(st.integers(0, 2)) == 0:
        # options that apply to every part of a multi-part content
        if draw(st.booleans()):
            kw['mode'] = 'byte'
        else:
            kw['encoding'] = draw(st.sampled_from(['utf-8', 'iso-8859-15']))
    desc = {'op': 'make', 'fn': fn, 'content': enc_content(content), 'kw': kw}
    if kw.get('encoding') in ('iso-8859-1', 'shift_jis', 'utf-8') and draw(st.booleans()):
        desc['own'] = True  # the session passes the library's own constant object, the pristine process an equal one
    return desc


KINDS = ['png', 'svg', 'eps', 'pdf', 'txt', 'ans', 'pbm', 'pam', 'ppm', 'tex', 'xbm', 'xpm']
TYPE_OPTS = ['finder_dark', 'finder_light', 'data_dark', 'data_light', 'timing_dark', 'separator', 'quiet_zone', 'format_dark', 'alignment_dark']


AMBIGUOUS = [[0, 0, 128, 1], [0, 0, 128, 1.0], [200, 30, 30, 128], [200, 30, 30, 128.0], [0, 0, 128, 0], [0, 0, 128, 0.0]]


@st.composite
def symbol_op(draw):
    k = draw(st.integers(0, 11))
    if k >= 10:
        # colour values which compare equal but mean different things (1 == 1.0, 128 == 128.0; the float
        # 128.0 is malformed): a memoisation keyed by equality makes the result depend on the history
        return {'op': 'save', 'kind': draw(st.sampled_from(['png', 'svg'])), 'opts': {'dark': draw(st.sampled_from(AMBIGUOUS[:4]))}}
    if k < 5:
        kind = draw(st.sampled_from(KINDS))
        opts = {}
        if kind not in ('txt', 'ans') and draw(st.booleans()):
            opts['scale'] = draw(st.sampled_from([1, 2, 3]))
        if draw(st.booleans()):
            opts['border'] = draw(st.sampled_from([0, 1, 4]))
        if kind in ('png', 'svg', 'ppm', 'pam', 'xpm', 'eps', 'pdf') and draw(st.booleans()):
            opts['dark'] = draw(st.sampled_from(['darkblue', '#123', [9, 8, 7]]))
            opts['light'] = draw(st.sampled_from(['yellow', '#fed', [250, 251, 252]]))
        elif kind in ('png', 'svg') and draw(st.booleans()):
            # values which compare equal but mean different things (1 == 1.0, 128 == 128.0): any
            # memoisation keyed by equality makes the result depend on the history
            opts['dark'] = draw(st.sampled_from([[0, 0, 128, 1], [0, 0, 128, 1.0], [200, 30, 30, 128], [200, 30, 30, 128.0],
                                                 [0, 0, 128, 0], [0, 0, 128, 0.0], [0, 0, 128, 255], [1, 1, 1], [1.0, 1.0, 1.0]]))
        if kind in ('png', 'svg', 'ppm') and draw(st.booleans()):
            for name in draw(st.permutations(TYPE_OPTS))[:draw(st.integers(1, 3))]:
                opts[name] = draw(st.sampled_from(['green', '#0000ff', 'orange', '#abcdef']))
        return {'op': 'save', 'kind': kind, 'opts': opts}
    if k < 7:
        return {'op': 'iter', 'verbose': draw(st.booleans()), 'scale': draw(st.sampled_from([1, 2])), 'border': draw(st.sampled_from([None, 0, 2])),
                'rows': draw(st.integers(0, 12))}
    if k < 8:
        return {'op': 'terminal', 'border': draw(st.sampled_from([None, 0, 1])), 'compact': draw(st.booleans())}
    if k < 9:
        if draw(st.booleans()):
            return {'op': 'save_fail', 'kind': draw(st.sampled_from(KINDS)), 'opts': {}, 'how': draw(st.sampled_from(['path', 'stream'])),
                    'after': draw(st.integers(0, 3))}
        return {'op': 'uri', 'which': draw(st.sampled_from(['png', 'svg'])), 'opts': {'scale': draw(st.sampled_from([1, 2]))}}
    return {'op': 'symbol_size', 'scale': draw(st.sampled_from([1, 2.5])), 'border': draw(st.sampled_from([None, 0]))}


class History(RuleBasedStateMachine):
    """Builds a history; the steps are executed by a Session child created per example."""

    def __init__(self):
        super().__init__()
        self.ops = []
        self.makes = []  # indices of make ops
        self.sess = Session()
        self.failed = None

    def _do(self, op):
        k = len(self.ops)
        self.ops.append(op)
        devs = step_history(self.sess, self.ops, k)
        STATE['steps'] += 1
        if devs:
            new = [d for d in devs if d.sig not in STATE['stats'].known_sigs and d.sig not in STATE['excluded']]
            if new:
                STATE['last_fail'] = (new[0].sig, new[0].msg, {'what': 'history', 'ops': list(self.ops)})
                raise _Failure(new[0].sig)

    @rule(desc=make_desc())
    def make(self, desc):
        self.makes.append(len(self.ops))
        self._do(desc)

    @precondition(lambda self: self.makes)
    @rule(data=st.data(), op=symbol_op())
    def on_symbol(self, data, op):
        creator = data.draw(st.sampled_from(self.makes))
        slot = self.makes.index(creator)
        self._do(dict(op, slot=slot, creator=creator, index=data.draw(st.integers(0, 2))))

    @precondition(lambda self: self.makes)
    @rule(data=st.data())
    def repeat(self, data):
        creator = data.draw(st.sampled_from(self.makes))
        self.makes.append(len(self.ops))
        self._do(dict(self.ops[creator]))

    @precondition(lambda self: self.makes)
    @rule(data=st.data())
    def reencode(self, data):
        creator = data.draw(st.sampled_from(self.makes))
        self._do({'op': 'reencode', 'slot': self.makes.index(creator), 'creator': creator, 'index': 0})

    @precondition(lambda self: self.makes)
    @rule(data=st.data())
    def related(self, data):
        """A call whose internal sub-problem equals the one of an earlier call: the same text as one
        chunk of a Structured Append sequence (or one chunk of an earlier sequence as a symbol of its
        own), same level - anything memoised on too small a key is hit."""
        creator = data.draw(st.sampled_from(self.makes))
        desc = self.ops[creator]
        content = dec_content(desc['content'])
        if not isinstance(content, str) or not content:
            return
        kw = {k: v for k, v in desc['kw'].items() if k in ('error', 'mask', 'boost_error', 'encoding')}
        if desc['fn'] == 'make_sequence':
            k = desc['kw'].get('symbol_count') or 2
            new = {'op': 'make', 'fn': 'make_qr', 'content': enc_content(content[:max(1, len(content) // k)]), 'kw': kw}
        else:
            k = data.draw(st.integers(2, 3))
            new = {'op': 'make', 'fn': 'make_sequence', 'content': enc_content(content * k), 'kw': dict(kw, symbol_count=k)}
        self.makes.append(len(self.ops))
        self._do(new)

    @rule(parts=st.lists(SMALL_TEXT, min_size=2, max_size=3), kw=st.sampled_from([{}, {'micro': False}, {'error': 'M'}, {'mode': 'byte'}, {'encoding': 'utf-8'}, {'mode': 'byte', 'micro': False}]))
    def same_object(self, parts, kw):
        self._do({'op': 'sameobj', 'content': enc_content(parts), 'kw': kw})

    def teardown(self):
        self.sess.close()
        kinds = {o['op'] for o in self.ops}
        if self.ops:
            STATE['stats'].record('histories', {'what': 'history', 'ops': list(self.ops)},
                                  Outcome([], ['history'] + sorted('op-' + k for k in kinds),
                                          len(self.ops) >= 3 and bool(kinds - {'make'}), counters={'history_steps': len(self.ops)}))


STATE = {'stats': None, 'excluded': set(), 'last_fail': None, 'steps': 0}


def step_history(sess, ops, k):
    """Executes step k in the session and returns the deviations of that step."""
    op = ops[k]
    status, res, problems = sess.step(op)
    devs = []
    if status == 'child-died':
        return [Dev('C15/history-process-died', 'the process executing the history died at step %d (%s)' % (k, op['op']))]
    if status == 'child-error':
        raise HarnessError('session child: %s' % res)
    for p in problems:
        devs.append(Dev('C15/' + ('lookup-table-modified' if 'table' in p else 'returned-symbol-modified'), '%s (after step %d: %s)' % (p, k, op['op'])))
    if isinstance(res, tuple) and res and res[0] == 'ARGUMENT-MODIFIED':
        devs.append(Dev('C15/argument-modified', 'step %d: %s -> %s' % (k, res[1], res[2])))
    elif op['op'] == 'sameobj':
        if res[1] is not True:
            devs.append(Dev('C15/same-arguments-different-symbol', 'two calls with the same list object differ (step %d)' % k))
        if res[2] is not True:
            devs.append(Dev('C15/argument-modified', 'list content changed (step %d)' % k))
    elif op['op'] == 'reencode':
        if res[1] is False or isinstance(res[1], tuple):
            devs.append(Dev('C15/reencoding-not-idempotent', 'step %d: re-encoding with the reported version / level / mask gives %r' % (k, res[1])))
    else:
        r = resolve(ops, k)
        if r is not None:
            exp = pristine(r)
            if res != exp:
                what = op['op'] if op['op'] != 'make' else op['fn']
                devs.append(Dev('C15/history-dependent-%s' % what, 'step %d (%s) differs from the answer of a pristine process: %s vs %s'
                                % (k, what, _brief(res), _brief(exp))))
    return devs


def histories_phase(tier):
    def fn(shard, nshards, seed, stats):
        n_examples = (40 if tier == 'quick' else 1500)
        steps = 30 if tier == 'quick' else 50
        STATE['stats'] = stats
        STATE['steps'] = 0
        STATE['excluded'] = set()
        for rnd in range(2 if tier == 'quick' else 4):
            STATE['last_fail'] = None
            machine = hypothesis.seed(seed * 1000 + shard * 7 + rnd)(History)
            try:
                run_state_machine_as_test(machine, settings=settings(
                    max_examples=n_examples, stateful_step_count=steps, deadline=None, database=None, derandomize=False,
                    report_multiple_bugs=False, print_blob=False, suppress_health_check=list(HealthCheck)))
            except _Failure:
                pass
            except HarnessError:
                raise
            except BaseException as ex:  # noqa: BLE001
                if STATE['last_fail'] is None:
                    import traceback
                    raise HarnessError('state machine: ' + ''.join(traceback.format_exception(ex))[-1500:])
            if STATE['last_fail'] is None:
                break
            sig, msg, case = STATE['last_fail']
            stats.failures.append((sig, msg, case))
            STATE['excluded'].add(sig)
            n_examples = max(5, n_examples // 2)
        stats.labels['history-steps'] += STATE['steps']
    return fn


@st.composite
def resolved_desc(draw):
    mk = draw(make_desc())
    if mk['fn'] == 'make_sequence' or draw(st.integers(0, 9)) < 6:
        return mk
    op = draw(symbol_op())
    return dict(op, sym=mk, index=0)


@st.composite
def contention_jobs(draw, n):
    """All threads create symbols of the same size with automatic mask (shared scratch state of the
    mask evaluation, of the matrix construction ... would be hit)."""
    v = draw(st.sampled_from([1, 1, 2, 3, 'M3', 'M4']))
    jobs = []
    for _ in range(n):
        descs = []
        for _j in range(draw(st.integers(1, 2))):
            text = draw(st.text(alphabet='0123456789', min_size=1, max_size=7) if isinstance(v, str)
                        else st.text(alphabet='0123456789ABCDEF abc', min_size=1, max_size=12))
            kw = {'version': v}
            if draw(st.booleans()):
                kw['error'] = draw(st.sampled_from(['L', 'M']))
            descs.append({'op': 'make', 'fn': 'make', 'content': enc_content(text), 'kw': kw})
        jobs.append(descs)
    return jobs


@st.composite
def schedule_cases(draw, free=False):
    n = draw(st.integers(2, 3))
    same = draw(st.integers(0, 2)) == 0
    first = draw(resolved_desc())
    jobs = []
    shared = None
    flavour = draw(st.integers(0, 9))
    if flavour < 4:
        jobs = draw(contention_jobs(n))
    elif flavour < 6:
        # all threads work on one symbol which was created before they start
        shared = draw(make_desc())
        shared['kw'].pop('symbol_count', None)
        if shared['fn'] == 'make_sequence':
            shared['fn'] = 'make_qr'
            shared['kw'].pop('version', None)
        for _ in range(n):
            ops = []
            for _j in range(draw(st.integers(1, 3))):
                op = draw(symbol_op())
                if op['op'] == 'save_fail':
                    op = {'op': 'save', 'kind': 'png', 'opts': {}}
                ops.append(dict(op, sym='SHARED', index=0))
            jobs.append(ops)
    for i in range(n if not jobs else 0):
        k = draw(st.integers(1, 3))
        jobs.append([first if (same and j == 0) else draw(resolved_desc()) for j in range(k)])
    case = {'what': 'schedule', 'jobs': jobs}
    if shared is not None:
        case['shared'] = shared
    if free:
        case['free'] = True
    else:
        case['schedule'] = draw(st.lists(st.tuples(st.integers(0, n - 1), st.one_of(st.integers(1, 40), st.integers(1, 40), st.integers(1, 400), st.integers(2000, 30000))), min_size=10, max_size=120))
    return case


@st.composite
def history_cases(draw):
    """Plain-data histories (used for replay of shrunk state machine failures and as an extra search)."""
    ops = []
    makes = []
    for _ in range(draw(st.integers(3, 12))):
        k = draw(st.integers(0, 9))
        if not makes or k < 4:
            makes.append(len(ops))
            ops.append(draw(make_desc()))
        elif k < 8:
            c = draw(st.sampled_from(makes))
            ops.append(dict(draw(symbol_op()), slot=makes.index(c), creator=c, index=0))
        elif k < 9:
            c = draw(st.sampled_from(makes))
            makes.append(len(ops))
            ops.append(dict(ops[c]))
        else:
            c = draw(st.sampled_from(makes))
            ops.append({'op': 'reencode', 'slot': makes.index(c), 'creator': c, 'index': 0})
    return {'what': 'history', 'ops': ops}


def preempt_grid(tier):
    """Thread 0 is stopped after k executed segno lines, thread 1 then runs to completion, thread 0
    finishes: a systematic sweep of the single pre-emption point over same-size symbols (first use of
    every lazily initialised or shared structure happens inside thread 0)."""
    cases = []

    def mk(text, **kw):
        return {'op': 'make', 'fn': 'make', 'content': enc_content(text), 'kw': kw}
    pairs = [
        (mk('HELLO WORLD 1', version=1), mk('12345', version=1), 26000, 41 if tier == 'quick' else 7),
        (mk('1234', version='M2'), mk('98', version='M2'), 6000, 29 if tier == 'quick' else 5),
        (mk('pre-emption', version=7), mk('7777777', version=7), 110000, 397 if tier == 'quick' else 61),
    ]
    for a, b, total, step in pairs:
        for k in range(3, total, step):
            cases.append({'what': 'schedule', 'jobs': [[a], [b]], 'schedule': [[0, k], [1, 10 ** 9], [0, 10 ** 9]], 'once': True})
    return cases


def reencode_grid(tier):
    """make + re-encode with the reported version / level / mask for every content length of a few
    content shapes: the reported level (after the automatic boost) must be one the data really has."""
    cases = []
    shapes = [('1234567890', {}), ('ABC DEF$%', {}), ('abcdefgh', {}), ('\u00e4bcdefg', {'encoding': 'utf-8'}),
              ('\u00e4bcdefg', {'encoding': 'utf-8', 'eci': True}), ('abcdefgh', {'encoding': 'utf-8', 'eci': True}),
              ('\u00e4bcdefg', {'eci': True}), ('\u70b9\u8317', {}), ('abc12345678', {'micro': False})]
    for text, kw in shapes:
        for n in range(1, 61 if tier == 'quick' else 400):
            content = (text * (n // len(text) + 1))[:n]
            for fn in ('make', 'make_qr'):
                if fn == 'make_qr' and (n % 2 or 'micro' in kw):
                    continue
                kw2 = dict(kw)
                if fn == 'make' and kw.get('eci'):
                    kw2['micro'] = False
                ops = [{'op': 'make', 'fn': fn, 'content': enc_content(content), 'kw': kw2},
                       {'op': 'reencode', 'slot': 0, 'creator': 0, 'index': 0},
                       {'op': 'make', 'fn': fn, 'content': enc_content(content), 'kw': kw2}]
                cases.append({'what': 'history', 'ops': ops})
    return cases


def related_grid(tier):
    """Calls whose intermediate values coincide (same mode, same number of data bits, same level) although the
    results must differ: a plain symbol and a Structured Append sequence whose chunks have the length of that
    symbol's content, Micro / non-Micro, in both orders.  Anything memoised on too small a key shows up as a
    step that differs from the answer of a pristine process."""
    cases = []
    for text in ('1234567890', 'ABC DEF$%', 'abcdefgh'):
        for n in range(1, 61 if tier == 'quick' else 200):
            part = (text * (n // len(text) + 1))[:n]
            for kw in ({}, {'error': 'M'}):
                single = {'op': 'make', 'fn': 'make_qr', 'content': enc_content(part), 'kw': dict(kw)}
                plain = {'op': 'make', 'fn': 'make', 'content': enc_content(part), 'kw': dict(kw, micro=False)}
                micro = {'op': 'make', 'fn': 'make', 'content': enc_content(part), 'kw': dict(kw)}
                seq2 = {'op': 'make', 'fn': 'make_sequence', 'content': enc_content(part * 2), 'kw': dict(kw, symbol_count=2)}
                seq1 = {'op': 'make', 'fn': 'make_sequence', 'content': enc_content(part), 'kw': dict(kw, symbol_count=1)}
                order = [single, seq2, micro, seq1, plain] if n % 2 else [seq2, single, seq1, micro, plain]
                if not kw or n % 3 == 0:
                    cases.append({'what': 'history', 'ops': order})
    # contents that compare (and hash) equal but are different contents: 1 / True / '1' / b'1', 0 / False
    # (bool is an int subclass; anything memoised on the content by == mixes them up), in every order of two
    eq = [{'t': 'int', 'v': '1'}, {'t': 'bool', 'v': True}, {'t': 'int', 'v': '0'}, {'t': 'bool', 'v': False},
          {'t': 'str', 'v': '1'}, {'t': 'bytes', 'v': '31'}]
    for fn in ('make', 'make_qr'):
        for a in eq:
            for b in eq:
                if a is not b:
                    cases.append({'what': 'history', 'ops': [{'op': 'make', 'fn': fn, 'content': a, 'kw': {}},
                                                              {'op': 'make', 'fn': fn, 'content': b, 'kw': {}},
                                                              {'op': 'make', 'fn': fn, 'content': a, 'kw': {}}]})
    return cases


def required_labels(tier):
    return ['preempt-once', 'history', 'history-steps', 'schedule', 'concurrent-switches', 'op-save', 'op-reencode', 'op-iter']


def phases(tier, seed):
    n = 640 if tier == 'quick' else 40000
    ph = [
        Enum('preempt-grid', lambda: preempt_grid(tier), exhaustive=False,
             note='single pre-emption point swept over the execution of thread 0 (grid of executed-line counts)'),
        Enum('reencode-grid', lambda: reencode_grid(tier), exhaustive=False,
             note='make / re-encode with the reported parameters / make again, every content length 1..60 (thorough: ..399) of 9 content shapes'),
        Enum('related-grid', lambda: related_grid(tier), exhaustive=False,
             note='plain symbol / sequence with chunks of the same length / Micro / non-Micro in one process, content lengths 1..60 (thorough: ..199) x 3 modes'),
        Custom('histories', histories_phase(tier)),
        Search('history-data', history_cases(), n // 2),
        Search('schedules', schedule_cases(), n),
    ]
    if tier == 'thorough':
        ph.append(Search('free-running-threads', schedule_cases(free=True), 1600, shrink=False))
    return ph
