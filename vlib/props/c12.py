"""C12 - all output routes give the same document for the same symbol and options."""
import base64
import contextlib
import gzip
import io
import os
import re
import shutil
import sys
import tempfile
from urllib.parse import unquote_to_bytes

import segno
from segno import cli
from hypothesis import strategies as st

from .. import colors, raster, vector
from ..common import call, Refused, Crash
from ..runner import HarnessError, Dev, Outcome, Enum, Search, ROOT

PROPERTY = 'C12'
LEVEL = 'exploration'
RULE = ('Hypothesis cases: content x make options x one of the 13 output kinds (incl. svgz) x an option set valid for '
        'the kind x routes: stream + kind (random letter case), file name (extension in random case), png_data_uri, '
        'svg_data_uri (default and encode_minimal, omit_charset), svg_inline, .svgz, segno.cli.main(argv) in-process with '
        'argv generated from the same option model (long / short flags, --scale=1.5, colour flags incl. transparent, SVG '
        'flags), CLI without --output vs. QRCode.terminal (plain and --compact), QRCodeSequence.save(name.ext) file names '
        'and contents, unknown extension -> ValueError. Oracle: differential - all routes byte-identical after masking '
        'the creation timestamps of EPS / PDF / LaTeX; the SVG data URI is compared after percent-decoding with the saved '
        'document in which attribute quotes (inside tags only) are replaced by apostrophes, as documented; every output '
        'is also parsed by the reader of its kind. Non-trivial: >= 3 routes compared and >= 1 non-default option; '
        'distinct by sha1(case).')
ASSUMPTIONS = ['routes are compared with each other (differential); well-formedness by vlib readers',
               'the documented quote substitution of SVG data URIs is undone by an own tag-level tokenizer']

BINARY = ('png', 'svg', 'pdf', 'pbm', 'pam', 'ppm', 'svgz')


def mask_timestamps(kind, data):
    if kind == 'eps':
        return re.sub(rb'%%CreationDate: [^\n]*', b'%%CreationDate: X', data)
    if kind == 'pdf':
        return re.sub(rb'/CreationDate\(D:[^)]*\)', b'/CreationDate(D:X)', data)
    if kind == 'tex':
        return re.sub(rb'% Date: [^\n]*', b'% Date: X', data)
    return data


def apostrophes(svg):
    """Replaces the quotes of attribute values by apostrophes - inside tags only."""
    out = []
    i = 0
    n = len(svg)
    while i < n:
        lt = svg.find(b'<', i)
        if lt < 0:
            out.append(svg[i:])
            break
        out.append(svg[i:lt])
        gt = lt
        quote = None
        j = lt
        while j < n:
            ch = svg[j:j + 1]
            if quote:
                if ch == quote:
                    quote = None
            elif ch in (b'"', b"'"):
                quote = ch
            elif ch == b'>':
                gt = j
                break
            j += 1
        tag = svg[lt:gt + 1]
        tag = re.sub(rb'="([^"]*)"', lambda m: b"='" + m.group(1) + b"'" if m.group(1) else m.group(0), tag)
        out.append(tag)
        i = gt + 1
    return b''.join(out)


def as_bytes(x):
    return x if isinstance(x, bytes) else x.encode('utf-8')


def well_formed(kind, data, opts=None):
    """Parses the output with the reader of its kind; returns an error string or None."""
    try:
        if kind == 'png':
            raster.read_png(data)
        elif kind == 'svg':
            enc = (opts or {}).get('encoding') or 'utf-8'
            if (opts or {}).get('xmldecl') is False and enc.lower() not in ('utf-8', 'utf8'):
                # the caller asked for a document without declaration in another encoding: a parser
                # has to be told the encoding out of band
                data = data.decode(enc).encode('utf-8')
            vector.read_svg(data)
        elif kind == 'pdf':
            d = vector.read_pdf(data)
            if not d['length_ok'] or not all(d['xref_ok'].values()):
                return 'PDF length / xref'
        elif kind == 'eps':
            vector.read_eps(data.decode('ascii'))
        elif kind == 'pbm':
            raster.read_pbm(data)
        elif kind == 'pam':
            raster.read_pam(data)
        elif kind == 'ppm':
            raster.read_ppm(data)
        elif kind == 'xbm':
            raster.read_xbm(data.decode('ascii'))
        elif kind == 'xpm':
            raster.read_xpm(data.decode('ascii'))
        elif kind == 'ans':
            raster.read_ansi(data.decode('utf-8'))
    except (raster.Unsupported, vector.Unsupported) as ex:
        raise HarnessError('reader limitation (%s): %s' % (kind, ex))
    except (raster.FormatError, vector.FormatError, UnicodeError) as ex:
        return str(ex)
    return None


CLI_FLAG = {'alignment_dark': '--align-dark', 'alignment_light': '--align-light'}


def argv_for(case, outfile):
    """Translates the option model into command line arguments."""
    mk, opts, kind = case['mk'], case['opts'], case['kind']
    sel = case.get('spell', 0)
    argv = []
    if mk.get('micro') is True:
        argv.append('--micro')
    elif sel & 1:
        argv.append('--no-micro')
    if 'error' in mk:
        argv += ['-e' if sel & 2 else '--error', mk['error'] if sel & 4 else mk['error'].lower()]
    if mk.get('boost_error') is False:
        argv.append('--no-error-boost')
    if 'version' in mk:
        argv += ['-v' if sel & 8 else '--version', str(mk['version'])]
    if 'mask' in mk:
        argv += ['-p' if sel & 16 else '--pattern', str(mk['mask'])]
    if 'mode' in mk:
        argv += ['--mode', mk['mode']]
    if 'encoding' in mk:
        argv += ['--encoding', mk['encoding']]
    if 'scale' in opts:
        argv += ['--scale=%s' % opts['scale']] if sel & 32 else ['-s', str(opts['scale'])]
    if 'border' in opts:
        argv += ['-b' if sel & 64 else '--border', str(opts['border'])]
    for key, val in opts.items():
        if key in ('dark', 'light') or key.endswith('_dark') or key.endswith('_light') or key in ('separator', 'dark_module', 'quiet_zone'):
            flag = CLI_FLAG.get(key, '--' + key.replace('_', '-'))
            sval = 'transparent' if val is None else val
            if val is None and sel & 128:
                sval = 'trans'
            argv += [flag + '=' + sval] if sel & 256 else [flag, sval]
    simple = {'title': '--title', 'desc': '--desc', 'svgid': '--svgid', 'unit': '--unit', 'dpi': '--dpi', 'svgversion': '--svgversion'}
    for key, flag in simple.items():
        if key in opts:
            argv += [flag, str(opts[key])]
    if opts.get('xmldecl') is False:
        argv.append('--no-xmldecl')
    if opts.get('svgns') is False:
        argv.append('--no-namespace')
    if opts.get('nl') is False:
        argv.append('--no-newline')
    if opts.get('omitsize'):
        argv.append('--no-size')
    if opts.get('draw_transparent'):
        argv.append('--draw-transparent')
    if 'encoding' in opts:
        argv += ['--svgencoding', opts['encoding']]
    if 'svgclass' in opts and 'lineclass' in opts and opts['svgclass'] is None and opts['lineclass'] is None:
        argv.append('--no-classes')
    else:
        if 'svgclass' in opts:
            argv += ['--svgclass', opts['svgclass'] or '']
        if 'lineclass' in opts:
            argv += ['--lineclass', opts['lineclass'] or '']
    if outfile:
        argv += ['-o', outfile] if sel & 512 else ['--output=' + outfile]
    argv += case['content'].split(' ') if sel & 1024 else [case['content']]
    return argv


def api_make_kwargs(mk, for_cli):
    kw = dict(mk)
    if for_cli:
        # the command line tool disallows Micro QR codes unless --micro or a Micro version is given
        if kw.get('micro') is not True:
            kw['micro'] = None if str(kw.get('version', '')).upper() in ('M1', 'M2', 'M3', 'M4') else False
    return kw


def run_cli(argv):
    out, err = io.StringIO(), io.StringIO()
    code = None
    with contextlib.redirect_stdout(out), contextlib.redirect_stderr(err):
        try:
            code = cli.main(list(argv))
        except SystemExit as ex:
            code = ('exit', ex.code)
        except ValueError as ex:
            # a refusal of the serialiser (not of make) reaches the caller of main()
            code = ('ValueError', str(ex)[:100])
    return code, out.getvalue(), err.getvalue()


def check_case(case):
    what = case.get('what', 'routes')
    work = tempfile.mkdtemp(prefix='c12-', dir=os.path.join(ROOT, '.work'))
    try:
        if what == 'sequence':
            return check_sequence(case, work)
        if what == 'terminal':
            return check_terminal(case)
        if what == 'unknown-ext':
            return check_unknown(case, work)
        return check_routes(case, work)
    finally:
        shutil.rmtree(work, ignore_errors=True)


def check_routes(case, work):
    kind = case['kind']
    opts = dict(case['opts'])
    api_only = dict(case.get('api_only', {}))
    cli_ok = not api_only and case.get('cli', True)
    mk = api_make_kwargs(case['mk'], for_cli=cli_ok)
    labels = ['kind-' + kind]
    try:
        qr = call(segno.make, case['content'], **mk)
    except Refused:
        return Outcome((), labels + ['refused-make'], False, True)
    except Crash as ex:
        return Outcome([Dev('C12/crash-' + ex.key, str(ex))], labels, True)
    kw = {k: colors.to_arg(v) for k, v in opts.items()}
    kw.update(api_only)
    base = 'svg' if kind == 'svgz' else kind
    results = {}
    devs = []

    def attempt(name, fn):
        try:
            results[name] = call(fn)
        except Refused as ex:
            results[name] = ('REFUSED', type(ex.exc).__name__)
        except Crash as ex:
            results[name] = ('CRASH', ex.key)
            devs.append(Dev('C12/crash-%s-%s' % (name, ex.key), str(ex)))

    def to_stream(k):
        buf = io.BytesIO() if base in BINARY else io.StringIO()
        qr.save(buf, kind=k, **kw)
        return as_bytes(buf.getvalue())

    def to_path(ext):
        path = os.path.join(work, 'out.' + ext)
        qr.save(path, **kw)
        with open(path, 'rb') as f:
            data = f.read()
        return gzip.decompress(data) if ext.lower() == 'svgz' else data
    spell = case.get('spell', 0)
    k_spelled = base.upper() if spell & 1 else (base.title() if spell & 2 else base)
    e_spelled = kind.upper() if spell & 4 else (kind.title() if spell & 8 else kind)
    attempt('stream', lambda: to_stream(base))
    if k_spelled != base:
        attempt('stream-kind-case', lambda: to_stream(k_spelled))
    attempt('path', lambda: to_path(kind))
    if e_spelled != kind:
        attempt('path-ext-case', lambda: to_path(e_spelled))
    if kind == 'svg':
        attempt('svgz', lambda: to_path('svgz'))

        def svgz_stream(k):
            def f():
                buf = io.BytesIO()
                qr.save(buf, kind=k, **kw)
                return gzip.decompress(buf.getvalue())
            return f
        attempt('svgz-stream', svgz_stream('svgz'))
        if spell & 3:
            attempt('svgz-stream-kind-case', svgz_stream('SVGZ' if spell & 1 else 'Svgz'))
    if kind == 'png':
        def uri():
            u = qr.png_data_uri(**kw)
            if not u.startswith('data:image/png;base64,'):
                raise AssertionError('PNG data URI prefix %r' % u[:30])
            return base64.b64decode(u[len('data:image/png;base64,'):], validate=True)
        attempt('png_data_uri', uri)
    if base == 'svg' and kind == 'svg':
        enc = opts.get('encoding', 'utf-8') or 'utf-8'

        def inline():
            s = qr.svg_inline(**{k: v for k, v in kw.items() if k not in ('xmldecl', 'svgns', 'nl')})
            return s.encode(enc)

        def inline_ref():
            buf = io.BytesIO()
            qr.save(buf, kind='svg', **dict(kw, xmldecl=False, svgns=False, nl=False))
            return buf.getvalue()
        if enc.lower() in ('utf-8', 'iso-8859-1', 'ascii'):
            attempt('svg_inline', inline)
            attempt('svg_inline_ref', inline_ref)

        def data_uri(**extra):
            def f():
                u = qr.svg_data_uri(**dict(kw, **extra))
                head, _, body = u.partition(',')
                want = 'data:image/svg+xml' + ('' if extra.get('omit_charset') else ';charset=' + enc)
                if head != want:
                    raise AssertionError('SVG data URI header %r, expected %r' % (head, want))
                return unquote_to_bytes(body)
            return f

        def uri_ref():
            buf = io.BytesIO()
            qr.save(buf, kind='svg', **dict({'xmldecl': False, 'nl': False}, **kw))
            return apostrophes(buf.getvalue())
        # every ASCII-compatible single-byte / UTF-8 document encoding: the percent-decoded payload has to be the saved
        # document byte for byte (round 8: the payload re-encoded as UTF-8 under a latin-1 charset label)
        if enc.lower() in ('utf-8', 'ascii', 'iso-8859-1', 'iso-8859-15', 'cp1252'):
            attempt('svg_data_uri', data_uri())
            attempt('svg_data_uri_minimal', data_uri(encode_minimal=True, omit_charset=True))
            attempt('svg_data_uri_ref', uri_ref)
    if cli_ok:
        out = os.path.join(work, 'cli.' + e_spelled)
        argv = argv_for(case, out)
        code, so, se = run_cli(argv)
        if code == 0:
            try:
                with open(out, 'rb') as f:
                    data = f.read()
                results['cli'] = gzip.decompress(data) if kind == 'svgz' else data
            except OSError:
                devs.append(Dev('C12/cli-status-0-without-output', 'argv %s returned 0 but wrote no file' % argv))
        else:
            results['cli'] = ('REFUSED', 'exit %r: %s' % (code, se.strip()[:80]))
    # compare
    ref = results.get('stream')
    compared = 0
    if isinstance(ref, tuple):
        # refusal: every route must refuse (the CLI reports it in its own way)
        for name, val in results.items():
            if name.endswith('_ref'):
                continue
            if not isinstance(val, tuple) and name != 'cli':
                devs.append(Dev('C12/route-%s-accepts-what-stream-refuses' % name, '%s: stream route %s' % (opts, ref)))
        return Outcome(devs, labels + ['refused'], bool(devs), True)
    refm = mask_timestamps(base, ref)
    pairs = {'svg_inline': 'svg_inline_ref', 'svg_data_uri': 'svg_data_uri_ref', 'svg_data_uri_minimal': 'svg_data_uri_ref'}
    for name, val in results.items():
        if name == 'stream' or name.endswith('_ref'):
            continue
        target = results.get(pairs[name]) if name in pairs else ref
        if isinstance(val, tuple):
            if val[0] == 'REFUSED':
                devs.append(Dev('C12/route-%s-refuses' % name, '%s %s, the stream route succeeds (%s)' % (name, val, opts)))
            continue
        if isinstance(target, tuple) or target is None:
            continue
        compared += 1
        a, b = mask_timestamps(base, val), mask_timestamps(base, target)
        if a != b:
            i = next((i for i, (x, y) in enumerate(zip(a, b)) if x != y), min(len(a), len(b)))
            devs.append(Dev('C12/route-%s-differs-%s' % (name, kind), 'first difference at byte %d: %r vs %r (options %s)'
                            % (i, a[max(0, i - 20):i + 30], b[max(0, i - 20):i + 30], opts)))
    err = well_formed(base, ref, opts)
    if err:
        devs.append(Dev('C12/malformed-%s' % kind, err))
    labels.append('routes-%d' % (compared + 1))
    if 'cli' in results:
        labels.append('cli')
    nontrivial = compared >= 2 and bool(opts or case['mk'])
    return Outcome(devs, labels, nontrivial, counters={'routes_compared': compared + 1})


def check_terminal(case):
    mk = api_make_kwargs(case['mk'], for_cli=True)
    labels = ['terminal']
    try:
        qr = call(segno.make, case['content'], **mk)
    except Refused:
        return Outcome((), labels + ['refused-make'], False, True)
    border, compact = case['opts'].get('border'), bool(case['opts'].get('compact'))
    argv = argv_for(dict(case, kind='ans', opts={k: v for k, v in case['opts'].items() if k == 'border'}), None)
    if compact:
        argv.insert(0, '--compact')
    code, so, se = run_cli(argv)
    exp = io.StringIO()
    qr.terminal(out=exp, border=border, compact=compact)
    devs = []
    if code != 0:
        devs.append(Dev('C12/cli-terminal-status', 'argv %s -> %r %s' % (argv, code, se[:80])))
    elif so != exp.getvalue():
        devs.append(Dev('C12/cli-terminal-differs', 'stdout of %s differs from QRCode.terminal(border=%r, compact=%r)' % (argv, border, compact)))
    with contextlib.redirect_stdout(io.StringIO()) as direct:
        qr.terminal(border=border, compact=compact)
    if direct.getvalue() != exp.getvalue():
        devs.append(Dev('C12/terminal-stdout-differs', 'terminal() to sys.stdout differs from terminal(out)'))
    buf = io.StringIO()
    qr.save(buf, kind='ans', border=border)
    if not compact and buf.getvalue() != exp.getvalue():
        devs.append(Dev('C12/ans-differs-from-terminal', 'save(kind="ans") differs from terminal()'))
    return Outcome(devs, labels + (['compact'] if compact else []), True)


def check_sequence(case, work):
    kind = case['kind']
    kw = {k: colors.to_arg(v) for k, v in case['opts'].items()}
    labels = ['sequence']
    try:
        seq = call(segno.make_sequence, case['content'], **case['mk'])
    except Refused:
        return Outcome((), labels + ['refused-make'], False, True)
    m = len(seq)
    stem = case.get('stem', 'seq')
    target = os.path.join(work, stem + '.' + kind)
    devs = []
    try:
        call(seq.save, target, **kw)
    except Refused as ex:
        return Outcome([Dev('C12/sequence-save-refused', str(ex))], labels, True, True)
    except Crash as ex:
        return Outcome([Dev('C12/crash-sequence-' + ex.key, str(ex))], labels, True)
    if m == 1:
        expect = [stem + '.' + kind]
    else:
        expect = ['%s-%02d-%02d.%s' % (stem, m, i, kind) for i in range(1, m + 1)]
    found = sorted(os.listdir(work))
    if found != sorted(expect):
        devs.append(Dev('C12/sequence-file-names', 'files %s, expected %s' % (found[:4], expect[:4])))
    else:
        for name, qr in zip(expect, seq):
            with open(os.path.join(work, name), 'rb') as f:
                data = f.read()
            buf = io.BytesIO() if kind in BINARY else io.StringIO()
            qr.save(buf, kind=kind, **kw)
            if mask_timestamps(kind, data) != mask_timestamps(kind, as_bytes(buf.getvalue())):
                devs.append(Dev('C12/sequence-file-content', '%s differs from the output of the individual symbol' % name))
                break
    # CLI --seq
    if case.get('cli') and m >= 1:
        cwork = os.path.join(work, 'cli')
        os.makedirs(cwork)
        out = os.path.join(cwork, stem + '.' + kind)
        argv = ['--seq']
        if 'symbol_count' in case['mk']:
            argv += ['-sc', str(case['mk']['symbol_count'])]
        argv += argv_for({'mk': {k: v for k, v in case['mk'].items() if k != 'symbol_count'}, 'opts': case['opts'],
                          'kind': kind, 'content': case['content'], 'spell': case.get('spell', 0) & ~1024}, out)
        code, so, se = run_cli(argv)
        if code != 0:
            devs.append(Dev('C12/cli-sequence-status', 'argv %s -> %r %s' % (argv, code, se[:80])))
        elif sorted(os.listdir(cwork)) != sorted(expect):
            devs.append(Dev('C12/cli-sequence-file-names', 'files %s, expected %s' % (sorted(os.listdir(cwork))[:4], expect[:4])))
        else:
            for name in expect:
                with open(os.path.join(cwork, name), 'rb') as f1, open(os.path.join(work, name), 'rb') as f2:
                    if mask_timestamps(kind, f1.read()) != mask_timestamps(kind, f2.read()):
                        devs.append(Dev('C12/cli-sequence-file-content', '%s differs' % name))
                        break
    labels.append('symbols-%d' % min(m, 3))
    return Outcome(devs, labels, m >= 2)


def check_unknown(case, work):
    qr = segno.make('1')
    name = case['name']
    devs = []
    try:
        call(qr.save, os.path.join(work, name))
        devs.append(Dev('C12/unknown-extension-accepted', 'save(%r) did not raise' % name))
    except Refused:
        pass
    except Crash as ex:
        devs.append(Dev('C12/crash-unknown-extension-' + ex.key, str(ex)))
    try:
        call(qr.save, io.BytesIO(), kind=case['kindname'])
        devs.append(Dev('C12/unknown-kind-accepted', 'save(kind=%r) did not raise' % case['kindname']))
    except Refused:
        pass
    except Crash as ex:
        devs.append(Dev('C12/crash-unknown-kind-' + ex.key, str(ex)))
    if os.listdir(work):
        pass  # (a file may have been created before the refusal; not part of the statement)
    return Outcome(devs, ['unknown-ext'], True, True)


# ------------------------------------------------------------------ strategies
CLI_COLOURS = ['red', '#123456', '#abc', 'darkblue', 'yellow', '#fedcba', '#eee', 'Green', '#0000ff', 'orange']
TYPE_OPTS = ['finder_dark', 'finder_light', 'data_dark', 'data_light', 'version_dark', 'version_light', 'format_dark', 'format_light',
             'alignment_dark', 'alignment_light', 'timing_dark', 'timing_light', 'separator', 'dark_module', 'quiet_zone']
SUPPORTS = {
    'svg': {'scale', 'border', 'dark', 'light', 'svg', 'types', 'frac', 'light_none'},
    'svgz': {'scale', 'border', 'dark', 'light', 'svg', 'types', 'frac', 'light_none'},
    'png': {'scale', 'border', 'dark', 'light', 'dpi', 'types', 'dark_none', 'light_none', 'alpha'},
    'eps': {'scale', 'border', 'dark', 'light', 'frac', 'light_none'}, 'pdf': {'scale', 'border', 'dark', 'light', 'frac', 'light_none'},
    'txt': {'border', 'txtchars'}, 'ans': {'border'}, 'pbm': {'scale', 'border'},
    'pam': {'scale', 'border', 'dark', 'light', 'light_none'}, 'ppm': {'scale', 'border', 'dark', 'light', 'types'},
    'tex': {'scale', 'border', 'texdark', 'texunit', 'frac'}, 'xbm': {'scale', 'border'},
    'xpm': {'scale', 'border', 'dark', 'light', 'dark_none', 'light_none'},
}


@st.composite
def make_opts(draw):
    mk = {}
    content = draw(st.sampled_from(['Hello', '12345', 'HELLO WORLD', 'a b c', 'https://example.org/?q=1', 'Ünï', '点茗']))
    if draw(st.integers(0, 9)) < 4:
        mk['micro'] = True
    if draw(st.integers(0, 9)) < 3:
        mk['error'] = draw(st.sampled_from(['L', 'M', 'Q', 'H']))
    if draw(st.integers(0, 9)) < 3:
        mk['boost_error'] = False
    if draw(st.integers(0, 9)) < 2:
        mk['version'] = draw(st.sampled_from([1, 2, 5, 7, 'M4', 'm3', 10]))
    if draw(st.integers(0, 9)) < 3:
        mk['mask'] = draw(st.integers(0, 3))
    if draw(st.integers(0, 9)) < 1:
        mk['mode'] = 'byte'
    if draw(st.integers(0, 9)) < 1:
        mk['encoding'] = 'utf-8'
    return content, mk


@st.composite
def route_cases(draw):
    content, mk = draw(make_opts())
    kind = draw(st.sampled_from(sorted(SUPPORTS) + ['svg', 'png', 'svg']))
    sup = SUPPORTS[kind]
    opts = {}
    api_only = {}

    def maybe(name, p=4):
        return name in sup and draw(st.integers(0, 9)) < p
    if maybe('scale'):
        opts['scale'] = draw(st.sampled_from([1, 2, 3, 5, 10] + ([1.5, 0.5, 2.25] if 'frac' in sup else [2.5])))
    if maybe('border'):
        opts['border'] = draw(st.sampled_from([0, 1, 2, 5]))
    if maybe('dark'):
        pool = list(CLI_COLOURS) + ([None] if 'dark_none' in sup else []) + (['#11223344'] if 'alpha' in sup else [])
        opts['dark'] = draw(st.sampled_from(pool))
    if maybe('light'):
        pool = list(CLI_COLOURS) + ([None, None] if 'light_none' in sup else []) + (['#44332211'] if 'alpha' in sup else [])
        opts['light'] = draw(st.sampled_from(pool))
    if opts.get('dark', 1) is None and opts.get('light', 1) is None:
        del opts['light']
    if 'txtchars' in sup and draw(st.integers(0, 9)) < 4:
        opts['dark'], opts['light'] = draw(st.sampled_from([('X', '.'), ('#', '_'), ('1', '0')]))
    if 'texdark' in sup and draw(st.integers(0, 9)) < 4:
        opts['dark'] = draw(st.sampled_from(['red', 'blue']))
    if 'texunit' in sup and draw(st.integers(0, 9)) < 3:
        opts['unit'] = draw(st.sampled_from(['mm', 'cm']))
    if 'types' in sup and draw(st.integers(0, 9)) < 4:
        for k in draw(st.permutations(TYPE_OPTS))[:draw(st.integers(1, 4))]:
            opts[k] = draw(st.sampled_from(['green', '#0000ff', '#f0f', 'orange'] + ([None] if kind in ('png', 'svg', 'svgz') else [])))
    if 'svg' in sup:
        for name, strat, p in (('xmldecl', st.just(False), 3), ('svgns', st.just(False), 3), ('nl', st.just(False), 3),
                               ('title', st.sampled_from(['T <&> "q"', 'Title', "it's", 'K\u00e4se', 'Price: 5 \u20ac', '\u70b9']), 3), ('desc', st.sampled_from(['D & d', 'desc', 'Gr\u00fc\u00dfe']), 3),
                               ('svgid', st.just('myid'), 3), ('draw_transparent', st.just(True), 2),
                               ('svgversion', st.sampled_from([1.0, 1.1, 1.2, 2.0]), 3), ('encoding', st.sampled_from(['iso-8859-1', 'utf-8', 'iso-8859-1', 'ascii', 'ISO-8859-15', 'cp1252']), 3)):
            if draw(st.integers(0, 9)) < p:
                opts[name] = draw(strat)
        r = draw(st.integers(0, 9))
        if r < 2:
            opts['svgclass'] = None
            opts['lineclass'] = None
        elif r < 4:
            opts['svgclass'] = 'c1'
        elif r < 6:
            opts['lineclass'] = 'l1'
        r = draw(st.integers(0, 9))
        if r < 2:
            opts['omitsize'] = True
        elif r < 5:
            opts['unit'] = draw(st.sampled_from(['mm', 'px', 'cm']))
    if 'dpi' in sup and draw(st.integers(0, 9)) < 3:
        opts['dpi'] = draw(st.sampled_from([72, 300]))
    # options which cannot be expressed on the command line
    if draw(st.integers(0, 9)) < 2:
        if kind == 'png':
            api_only['compresslevel'] = draw(st.integers(0, 9))
        elif kind == 'pbm':
            api_only['plain'] = True
        elif kind in ('xbm', 'xpm'):
            api_only['name'] = 'sym'
        elif kind == 'tex':
            api_only['url'] = 'http://example.org/'
        elif kind == 'pdf':
            api_only['compresslevel'] = draw(st.integers(0, 9))
    case = {'what': 'routes', 'content': content, 'mk': mk, 'kind': kind, 'opts': opts, 'spell': draw(st.integers(0, 2047))}
    if api_only:
        case['api_only'] = api_only
    return case


@st.composite
def terminal_cases(draw):
    content, mk = draw(make_opts())
    opts = {}
    if draw(st.booleans()):
        opts['border'] = draw(st.sampled_from([0, 1, 4, 7]))
    if draw(st.booleans()):
        opts['compact'] = True
    return {'what': 'terminal', 'content': content, 'mk': mk, 'opts': opts, 'spell': draw(st.integers(0, 2047))}


@st.composite
def sequence_cases(draw):
    kind = draw(st.sampled_from(['svg', 'png', 'txt', 'eps', 'pdf', 'pbm', 'xpm', 'tex']))
    n = draw(st.sampled_from([5, 30, 60, 120]))
    content = draw(st.text(alphabet='ABCDEFGH0123456789', min_size=n, max_size=n))
    mk = {}
    if draw(st.booleans()):
        mk['version'] = draw(st.sampled_from([1, 2, 3]))
    else:
        mk['symbol_count'] = draw(st.integers(1, 12))
    if draw(st.booleans()):
        mk['error'] = draw(st.sampled_from(['L', 'M', 'Q']))
    if draw(st.booleans()):
        mk['mask'] = draw(st.integers(0, 7))
    if draw(st.integers(0, 3)) == 0:
        mk['boost_error'] = False
    opts = {}
    if kind != 'txt' and draw(st.booleans()):
        opts['scale'] = draw(st.sampled_from([2, 3]))
    if draw(st.booleans()):
        opts['border'] = draw(st.sampled_from([0, 1, 3]))
    return {'what': 'sequence', 'content': content, 'mk': mk, 'kind': kind, 'opts': opts, 'cli': draw(st.booleans()),
            'stem': draw(st.sampled_from(['seq', 'a.b', 'x-y'])), 'spell': draw(st.integers(0, 1023))}


def unknown_cases():
    return [{'what': 'unknown-ext', 'name': n, 'kindname': k}
            for n, k in (('out.foo', 'foo'), ('out', 'jpg'), ('out.', ''), ('out.svgx', 'svgx'), ('out.pn', 'pn'), ('png', 'gif'), ('out.PDFX', 'PDFX'),
                         # characters which case-fold / normalise to the letters of a known extension
                         ('out.\u017fvg', '\u017fvg'), ('out.ep\u017f', 'ep\u017f'), ('out.an\u017f', 'an\u017f'), ('out.\u017fvgz', '\u017fvgz'),
                         ('out.\uff50\uff4e\uff47', '\uff50\uff4e\uff47'), ('out.p\u00adng', 'p\u00adng'),
                         ('out.t\u2093t', 't\u2093t'), ('out.pd\u1da0', 'pd\u1da0'), ('out.svg\u200b', 'svg\u200b'))]


def kind_grid():
    """Every kind x every extension / kind spelling, with and without options, through all routes."""
    cases = []
    for kind in sorted(SUPPORTS):
        for spell in (0, 1, 2, 4, 8, 5, 10, 1023, 2047):
            opts = {}
            if 'scale' in SUPPORTS[kind]:
                opts['scale'] = 3
            if spell & 2:
                opts['border'] = 1
            if 'dark' in SUPPORTS[kind] and spell & 4:
                opts['dark'] = 'darkblue'
            cases.append({'what': 'routes', 'content': 'HELLO', 'mk': {'micro': True} if spell & 1 else {}, 'kind': kind, 'opts': opts, 'spell': spell})
    return cases


def required_labels(tier):
    return ['kind-' + k for k in SUPPORTS] + ['cli', 'terminal', 'compact', 'sequence', 'symbols-3', 'unknown-ext', 'routes-5']


def phases(tier, seed):
    os.makedirs(os.path.join(ROOT, '.work'), exist_ok=True)
    n = 9600 if tier == 'quick' else 200000
    return [
        Enum('kind-grid', kind_grid, exhaustive=True, note='13 kinds x 9 spellings of kind / extension / flags'),
        Enum('unknown-extensions', unknown_cases, exhaustive=True),
        Search('routes', route_cases(), n),
        Search('terminal', terminal_cases(), n // 8),
        Search('sequences', sequence_cases(), n // 6),
    ]
