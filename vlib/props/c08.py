"""C08 - Structured Append sequences reassemble to the original message."""
from functools import reduce

import segno
from hypothesis import strategies as st

from .. import qrref as R
from .. import gens
from ..common import (call, Refused, Crash, dec_content, enc_content, decode_symbol, expected_parts, norm_mode,
                      auto_mode, representable, segment_bits, version_class)
from ..runner import Dev, Outcome, Enum, Search
from .c02 import structural_devs

PROPERTY = 'C08'
LEVEL = 'exploration'
RULE = ('Hypothesis cases: content class (digits, alphanumeric, Latin-1, ASCII, kanji, UTF-8-only text, mixed scripts, '
        'bytes, int) x length (1 .. several symbols, biased to exact multiples of the per-symbol payload and to '
        'lengths = 0,1,2 mod 3) x either version (1..40, biased small) or symbol_count (1..16) (10% both) x level x boost '
        'x mask x encoding; plus an enumeration of per-symbol capacity boundaries for versions 1-4 x levels x modes x '
        'k symbols. Oracle: every symbol checked as in C02/C03 and decoded by the reference decoder; header '
        '(i, n-1, parity) with parity = XOR of the expected bytes; concatenation = expected bytes; refusals are '
        'checked against a per-symbol capacity model. Non-trivial: >= 2 symbols returned; distinct by sha1(case).')
ASSUMPTIONS = ['vlib/qrref.py decoder', 'capacity model: SA header 20 bits + one segment per symbol',
               'near-equal division of the characters is the only division the model considers when judging a refusal']
K3 = 'C08/K3-version-path-truncated-at-16-symbols'


def chunk_sizes(nchars, k):
    q, m = divmod(nchars, k)
    return [q + 1] * m + [q] * (k - m)


def fits_division(v, lvl, mode, nchars, k):
    step = 2 if mode in ('kanji', 'hanzi') else 1
    cap = R.data_capacity_bits(v, lvl)
    for n in chunk_sizes(nchars, k):
        b = segment_bits(v, mode, n * step)
        if b is None or b + 20 > cap:
            return False
    return True


def min_symbols(v, lvl, mode, nchars):
    for k in range(1, 17):
        if k <= max(nchars, 1) and fits_division(v, lvl, mode, nchars, k):
            return k
    return None


def check_case(case):
    content = dec_content(case['content'])
    kw = dict(case['kw'])
    version, count = kw.get('version'), kw.get('symbol_count')
    lvl = (kw.get('error') or 'L').upper()
    labels = ['by-version' if version is not None and count is None else
              ('by-count' if count is not None and version is None else 'both')]
    try:
        parts = expected_parts(content, kw.get('mode'), kw.get('encoding'))
        exp = parts[0][0]
    except (UnicodeError, LookupError):
        exp = None
    mode = None
    if exp is not None:
        mode = norm_mode(kw.get('mode')) or auto_mode(exp)
    step = 2 if mode in ('kanji', 'hanzi') else 1
    nchars = len(exp) // step if exp is not None else 0
    try:
        seq = call(segno.make_sequence, content, **kw)
        seq = call(list, seq)
    except Refused as ex:
        devs = []
        if exp and mode != 'INVALID' and representable(mode, exp) and labels[0] != 'both':
            if version is not None:
                need = min_symbols(int(version), lvl, mode, nchars)
                if need is not None:
                    devs.append(Dev('C08/fitting-content-refused', '%d %s characters fit %d symbols of version %s-%s: %s'
                                    % (nchars, mode, need, version, lvl, ex)))
            elif 1 <= count <= 16 and nchars >= count and fits_division(40, lvl, mode, nchars, count):
                devs.append(Dev('C08/fitting-content-refused', '%d %s characters can be divided into %d symbols: %s'
                                % (nchars, mode, count, ex)))
        return Outcome(devs, labels + ['refused'], bool(devs), True)
    except Crash as ex:
        return Outcome([Dev('C08/crash-' + ex.key, str(ex))], labels + ['crash'], True)
    devs = []
    n = len(seq)
    labels.append('symbols-%s' % (n if n < 4 else ('4-8' if n <= 8 else '9-16')))
    if not 1 <= n <= 16:
        return Outcome([Dev('C08/symbol-count-range', '%d symbols returned' % n)], labels, True)
    if count is not None and version is None and n != count:
        devs.append(Dev('C08/symbol-count-not-honoured', 'symbol_count=%r, %d symbols returned' % (count, n)))
    got = b''
    parities = set()
    broken = None
    for i, qr in enumerate(seq):
        if qr.is_micro:
            devs.append(Dev('C08/micro-symbol', 'symbol %d is %s' % (i, qr.designator)))
            break
        if version is not None and count is None and qr.version != int(version):
            devs.append(Dev('C08/version-not-honoured', 'version=%r, symbol %d has version %r' % (version, i, qr.version)))
        sdevs, _info = structural_devs('C08', qr)
        devs += sdevs
        d, ddevs = decode_symbol('C08', qr)
        if d is None or ddevs:
            broken = (i, ddevs)
            break
        labels.append(version_class(d['version']))
        if n > 1:
            if d['sa'] is None:
                devs.append(Dev('C08/header-missing', 'symbol %d of %d has no Structured Append header' % (i, n)))
            else:
                if d['sa'][0] != i:
                    devs.append(Dev('C08/header-position', 'symbol %d carries position %d' % (i, d['sa'][0])))
                if d['sa'][1] != n - 1:
                    devs.append(Dev('C08/header-total', 'symbol %d carries total-1 = %d, sequence has %d symbols' % (i, d['sa'][1], n)))
                parities.add(d['sa'][2])
        if any(s['eci'] is not None for s in d['segments']):
            devs.append(Dev('C08/eci-unexpected', 'symbol %d has an ECI header' % i))
        got += b''.join(s['data'] for s in d['segments'])
    if broken is not None or (exp is not None and got != exp):
        # K3: the pinned truncation at the 16 symbol limit of the version path
        if (version is not None and count is None and n == 16 and exp is not None and mode != 'INVALID'
                and min_symbols(int(version), lvl, mode, nchars) is None):
            devs = [x for x in devs if x.sig not in ('C08/undecodable', 'C08/rs-syndrome')]
            devs.append(Dev(K3, '%d %s characters do not fit 16 symbols of version %s-%s, 16 symbols returned' % (nchars, mode, version, lvl)))
        elif broken is not None:
            devs += broken[1]
            devs.append(Dev('C08/symbol-does-not-decode', 'symbol %d of %d: %s' % (broken[0], n, [x.msg for x in broken[1]][:2])))
        else:
            kind = 'truncated' if exp.startswith(got) else 'altered'
            devs.append(Dev('C08/payload-' + kind, 'reassembled %d bytes, expected %d (%d symbols)' % (len(got), len(exp), n)))
    elif exp is None:
        devs.append(Dev('C08/accepted-unencodable', 'content cannot be encoded as requested'))
    elif n > 1:
        p = reduce(lambda a, b: a ^ b, exp, 0)
        if parities != {p}:
            devs.append(Dev('C08/parity', 'symbols carry parity %s, XOR of the message bytes is %d' % (sorted(parities), p)))
    if mode:
        labels.append('mode-' + mode)
    return Outcome(devs, labels, n >= 2)


CLASSES = {
    'hanzi': '书读百遍其义自现汉字',
    'digits': gens.DIGITS, 'alnum': R.ALNUM, 'latin1': 'aéüöß xyz', 'ascii': 'abcdefgh xyz,.',
    'kanji': '点茗漢字日本語', 'utf8': 'aé€漢🙂b', 'mixed': 'a1Aé点书€',
}


@st.composite
def sequence_cases(draw):
    kind = draw(st.sampled_from(['digits', 'digits', 'alnum', 'alnum', 'latin1', 'ascii', 'kanji', 'hanzi', 'utf8', 'mixed', 'bytes', 'int']))
    r = draw(st.integers(0, 99))
    kw = {}
    if r < 45:
        kw['version'] = draw(st.sampled_from([1, 1, 1, 2, 2, 3, 4, 5, 7, 9, 10, 12, 20, 27, 40][:draw(st.sampled_from([9, 9, 9, 12, 15]))]))
    elif r < 90:
        kw['symbol_count'] = draw(st.integers(1, 16))
    else:
        kw['version'] = draw(st.integers(1, 12))
        kw['symbol_count'] = draw(st.integers(1, 16))
    if draw(st.booleans()):
        kw['error'] = draw(st.sampled_from(['L', 'M', 'Q', 'H', 'l', 'q']))
    lvl = (kw.get('error') or 'L').upper()
    # a length related to the per-symbol capacity
    v = kw.get('version') or draw(st.sampled_from([1, 2, 3, 5]))
    mode = {'digits': 'numeric', 'alnum': 'alphanumeric', 'kanji': 'kanji', 'hanzi': 'kanji', 'int': 'numeric'}.get(kind, 'byte')
    per = max(1, (R.data_capacity_bits(v, lvl) - 20 - 4 - R.cci_bits(v, mode)) * {'numeric': 3, 'alphanumeric': 2, 'byte': 1, 'kanji': 1}[mode]
              // {'numeric': 10, 'alphanumeric': 11, 'byte': 8, 'kanji': 13}[mode])
    k = kw.get('symbol_count') or draw(st.integers(1, 17 if v <= 5 else 5))
    how = draw(st.integers(0, 9))
    if how < 4:
        n = per * k + draw(st.integers(-3, 3))
    elif how < 6:
        n = draw(st.integers(1, 12))
    else:
        n = draw(st.integers(1, max(2, per * k)))
    n = max(1, min(n, 9000))
    if kind in ('utf8', 'mixed', 'latin1'):
        n = max(1, n // 2)
    if kind == 'int':
        n = min(n, 4000)  # CPython refuses int <-> str conversions beyond 4300 digits
    # long contents are built by repeating a short drawn unit (Hypothesis limits the size of one draw)
    m = n if n <= 64 else draw(st.integers(5, 23))
    if kind == 'bytes':
        unit = draw(st.binary(min_size=m, max_size=m))
    elif kind == 'int':
        unit = '1' + draw(st.text(alphabet=gens.DIGITS, min_size=m - 1, max_size=m - 1))
    else:
        unit = draw(st.text(alphabet=CLASSES[kind], min_size=m, max_size=m))
    content = (unit * (n // m + 1))[:n]
    if kind == 'int':
        content = int(content)
    if draw(st.integers(0, 9)) < 3:
        kw['boost_error'] = False
    if draw(st.integers(0, 9)) < 5:
        kw['mask'] = draw(st.integers(0, 7))
    if draw(st.integers(0, 9)) < 2 and kind not in ('bytes',):
        kw['encoding'] = draw(st.sampled_from(['utf-8', 'shift_jis', 'utf-16-be', 'iso-8859-15']))
    if draw(st.integers(0, 9)) < 1 and kind in ('digits', 'alnum', 'ascii'):
        kw['mode'] = 'byte'
    if kind == 'hanzi':
        kw['mode'] = 'hanzi'
        kw.pop('encoding', None)
        if draw(st.integers(0, 2)) == 0:
            # (GB2312 is used for hanzi whatever encoding is given)
            kw['encoding'] = draw(st.sampled_from(['euc_jp', 'euc_kr', 'gb2312', 'utf-8', 'big5']))
    return {'fn': 'make_sequence', 'content': enc_content(content), 'kw': kw}


def boundary_cases(tier):
    cases = []
    versions = (1, 2, 3, 4) if tier == 'quick' else (1, 2, 3, 4, 5, 6, 9, 10)
    for v in versions:
        for lvl in ('L', 'M', 'Q', 'H'):
            for mode, alpha in (('numeric', '1234567890'), ('alphanumeric', 'AB C$%*+-./:9Z'), ('byte', 'abc;d,e/f'), ('kanji', '点茗漢字'),
                                ('hanzi', '书读百遍')):
                step = 2 if mode in ('kanji', 'hanzi') else 1
                cap = R.data_capacity_bits(v, lvl)
                per = 0
                while True:
                    b = segment_bits(v, mode, (per + 1) * step)
                    if b is None or b + 20 > cap:
                        break
                    per += 1
                if per < 1:
                    continue
                for k in (2, 3, 5, 16):
                    for n in (per * k - 1, per * k, per * k + 1):
                        if k == 16 and n > per * k:
                            continue  # needs a 17th symbol: the K3 area, covered by the search phase
                        text = (alpha * (n // len(alpha) + 1))[:n]
                        extra = {'mode': 'hanzi'} if mode == 'hanzi' else {}
                        cases.append({'fn': 'make_sequence', 'content': enc_content(text),
                                      'kw': dict({'version': v, 'error': lvl, 'boost_error': False, 'mask': 0}, **extra)})
                        cases.append({'fn': 'make_sequence', 'content': enc_content(text),
                                      'kw': dict({'symbol_count': k, 'error': lvl, 'mask': 0}, **extra)})
    return cases


def required_labels(tier):
    return ['by-version', 'by-count', 'symbols-2', 'symbols-9-16', 'mode-numeric', 'mode-alphanumeric', 'mode-byte', 'mode-kanji', 'mode-hanzi', 'refused']


def _fuzz(tier):
    """Coverage-guided phase (atheris), thorough tier (or VERIF_FUZZ_RUNS=<n> in any tier)."""
    import os
    runs = int(os.environ.get('VERIF_FUZZ_RUNS', '0' if tier == 'quick' else '96000'))
    if not runs:
        return []
    from .. import fuzz
    return [fuzz.fuzz_phase(__name__, runs, decoder='sequence')]


def phases(tier, seed):
    n = 9600 if tier == 'quick' else 200000
    return [
        Enum('per-symbol-boundaries', lambda: boundary_cases(tier), exhaustive=False,
             note='k x per-symbol capacity -1/0/+1 characters for versions x levels x modes'),
        Search('sequences', sequence_cases(), n),
    ] + _fuzz(tier)
