"""C16 - helper factories emit payloads whose fields parse back to the given values."""
import datetime
import decimal
import re
from urllib.parse import unquote

from segno import helpers
from hypothesis import strategies as st

from .. import qrref as R
from ..common import call, Refused, Crash, decode_symbol, expected_bytes_single
from ..runner import Dev, Outcome, Enum, Search

PROPERTY = 'C16'
LEVEL = 'exploration'
RULE = ('Hypothesis cases per factory (WIFI, MeCard, vCard, geo, mailto, EPC): field values drawn from an alphabet weighted '
        'towards ; : , \\ " CR LF, backslash before a delimiter, trailing backslash, empty strings, multi-valued fields '
        '(str / list), None; documented formats where the documentation prescribes one (WIFI security, dates, '
        'coordinates); EPC: names <= 70, IBAN 5-34, text <= 140 xor reference <= 35, BIC 8/11, purpose 4, amounts as '
        'Decimal / str / int / float over 0.01..999999999.99, out-of-range and over-long values, all eight encodings by '
        'name (any case) and number, texts outside the requested character set. Oracle: own payload parsers (split at '
        'unescaped ;, unescape; vCard line structure; RFC 5870 / mailto grammar; EPC069-12 line layout with Decimal '
        'equality); every second case also creates the symbol with the make_* factory and decodes it with the reference '
        'decoder. Non-trivial: a value contains a delimiter / escape / line break, or an EPC case; distinct by sha1(case).')
ASSUMPTIONS = ['own parsers in vlib/props/c16.py', 'vlib/qrref.py decoder for the make_* symbols']

SPECIAL = [';', ':', ',', '\\', '"', '\n', '\r\n', '\r', '\\;', '\\\\', '\\:']
PLAIN = ['a', 'b', 'Z', '1', ' ', 'é', '点', '-', '@', '.']
EPC_ENC = ('utf-8', 'iso-8859-1', 'iso-8859-2', 'iso-8859-4', 'iso-8859-5', 'iso-8859-7', 'iso-8859-10', 'iso-8859-15')


def value(nl=True, min_size=0, max_size=8):
    alpha = SPECIAL + PLAIN + PLAIN
    if not nl:
        alpha = [c for c in alpha if '\n' not in c and '\r' not in c]
    return st.lists(st.sampled_from(alpha), min_size=min_size, max_size=max_size).map(''.join)


def multi(nl=True):
    return st.one_of(st.none(), value(nl, 1), st.lists(value(nl, 1), min_size=1, max_size=3))


def aslist(v):
    return [] if not v else ([v] if isinstance(v, str) else list(v))


def split_fields(s):
    """Splits at ';' which is not escaped by a backslash."""
    out, cur, i = [], '', 0
    while i < len(s):
        ch = s[i]
        if ch == '\\' and i + 1 < len(s):
            cur += s[i:i + 2]
            i += 2
            continue
        if ch == ';':
            out.append(cur)
            cur = ''
        else:
            cur += ch
        i += 1
    out.append(cur)
    return out


def unesc(s):
    return re.sub(r'\\(.)', r'\1', s, flags=re.S)


def parse_fields(payload, prefix):
    if not payload.startswith(prefix):
        raise ValueError('prefix')
    res = []
    for f in split_fields(payload[len(prefix):]):
        k, sep, v = f.partition(':')
        res.append((k, unesc(v)) if sep else (unesc(f), None))
    return res


def special(*vals):
    for v in vals:
        for x in aslist(v) if not isinstance(v, str) else [v]:
            if x and any(c in x for c in ';:,\\"\n\r'):
                return True
    return False


# ------------------------------------------------------------------ per factory checks
def check_wifi(a):
    payload = call(helpers.make_wifi_data, a['ssid'], a['password'], a['security'], a['hidden'])
    exp = []
    if a['security']:
        exp.append(('T', a['security'].upper() if a['security'] != 'nopass' else 'nopass'))
    exp.append(('S', a['ssid']))
    if a['password'] is not None:
        exp.append(('P', a['password']))
    if a['hidden']:
        exp.append(('H', 'true'))
    else:
        exp.append(('', None))
    exp.append(('', None))
    got = parse_fields(payload, 'WIFI:')
    devs = []
    if got != exp:
        devs.append(Dev('C16/wifi-fields', 'payload %r parses to %r, expected %r' % (payload, got, exp)))
    return payload, devs, lambda: helpers.make_wifi(a['ssid'], a['password'], a['security'], a['hidden']), special(a['ssid'], a['password'] or '')


def _bday(b):
    if isinstance(b, str) and re.fullmatch(r'D\d{8}', b):
        return datetime.date(int(b[1:5]), int(b[5:7]), int(b[7:9]))
    return b


def check_mecard(a):
    kw = dict(a)
    name = kw.pop('name')
    kw['birthday'] = _bday(kw.get('birthday'))
    payload = call(helpers.make_mecard_data, name, **kw)
    exp = [('N', name)]
    if kw.get('reading'):
        exp.append(('SOUND', kw['reading']))
    exp += [('TEL', v) for v in aslist(kw.get('phone'))]
    exp += [('TELAV', v) for v in aslist(kw.get('videophone'))]
    exp += [('EMAIL', v) for v in aslist(kw.get('email'))]
    if kw.get('nickname'):
        exp.append(('NICKNAME', kw['nickname']))
    if kw.get('birthday'):
        b = kw['birthday']
        exp.append(('BDAY', b.strftime('%Y%m%d') if not isinstance(b, str) else b))
    exp += [('URL', v) for v in aslist(kw.get('url'))]
    adr = [kw.get(k) for k in ('pobox', 'roomno', 'houseno', 'city', 'prefecture', 'zipcode', 'country')]
    devs = []
    got = parse_fields(payload, 'MECARD:')
    if any(adr):
        # the seven address parts are separated by unescaped commas
        exp.append(('ADR', None))
    if kw.get('memo'):
        exp.append(('MEMO', kw['memo']))
    exp += [('', None), ('', None)]
    if len(got) != len(exp):
        devs.append(Dev('C16/mecard-field-count', 'payload %r has %d fields, expected %d' % (payload, len(got), len(exp))))
    else:
        for (gk, gv), (ek, ev) in zip(got, exp):
            if ek == 'ADR' and gk == 'ADR':
                # the value of the ADR field is the seven parts joined by ',' (the statement does not
                # promise that a comma inside a part can be told apart)
                want = ','.join(x or '' for x in adr)
                if gv != want:
                    devs.append(Dev('C16/mecard-address', 'ADR value %r, expected %r' % (gv, want)))
            elif (gk, gv) != (ek, ev):
                devs.append(Dev('C16/mecard-fields', 'field %r=%r, expected %r=%r (payload %r)' % (gk, gv, ek, ev, payload)))
                break
    return payload, devs, lambda: helpers.make_mecard(name, **kw), special(name, *[v for v in kw.values() if isinstance(v, (str, list))])


VCARD_PROPS = (('org', 'ORG', False), ('email', 'EMAIL', True), ('phone', 'TEL', True), ('fax', 'TEL;TYPE=FAX', True),
               ('videophone', 'TEL;TYPE=VIDEO', True), ('cellphone', 'TEL;TYPE=CELL', True), ('homephone', 'TEL;TYPE=HOME', True),
               ('workphone', 'TEL;TYPE=WORK', True), ('url', 'URL', True), ('title', 'TITLE', True), ('photo_uri', 'PHOTO;VALUE=uri', True),
               ('nickname', 'NICKNAME', False), ('source', 'SOURCE', False), ('memo', 'NOTE', False))


def check_vcard(a):
    kw = dict(a)
    name, dn = kw.pop('name'), kw.pop('displayname')
    bad_date = False
    for k in ('birthday', 'rev'):
        kw[k] = _bday(kw.get(k))
        if isinstance(kw[k], str) and not re.fullmatch(r'\d{4}-\d{2}-\d{2}(T\d{2}:\d{2}:\d{2}((-?\d{2}:\d{2})|Z)?)?', kw[k]):
            bad_date = True
    try:
        payload = call(helpers.make_vcard_data, name, dn, **kw)
    except Refused:
        if bad_date:
            return None, [], None, True
        raise
    devs = []
    if bad_date:
        devs.append(Dev('C16/vcard-invalid-date-accepted', 'birthday=%r rev=%r' % (a.get('birthday'), a.get('rev'))))
    if not payload.endswith('\r\n'):
        devs.append(Dev('C16/vcard-structure', 'payload does not end with CRLF'))
    lines = payload.split('\r\n')[:-1]
    if not lines or lines[0] != 'BEGIN:VCARD' or lines[-1] != 'END:VCARD':
        devs.append(Dev('C16/vcard-structure', 'first / last line %r %r' % (lines[:1], lines[-1:])))
    if any('\n' in ln or '\r' in ln for ln in lines):
        devs.append(Dev('C16/vcard-line-break-in-line', 'a content line contains a bare CR or LF: %r' % payload[:120]))
    exp = ['BEGIN', 'VERSION', 'N', 'FN']
    for key, prop, many in VCARD_PROPS:
        v = kw.get(key)
        exp += [prop] * (len(aslist(v)) if many else (1 if v else 0))
    if any(kw.get(k) for k in ('pobox', 'street', 'city', 'region', 'zipcode', 'country')):
        exp.append('ADR')
    if kw.get('birthday'):
        exp.append('BDAY')
    if kw.get('lat') and kw.get('lng'):
        exp.append('GEO')
    if kw.get('rev'):
        exp.append('REV')
    exp.append('END')
    got = [ln.partition(':')[0] for ln in lines]
    if sorted(got) != sorted(exp):
        devs.append(Dev('C16/vcard-content-lines', 'content lines %s, expected one line per value: %s' % (sorted(got), sorted(exp))))
    strs = [name, dn] + [v for v in kw.values() if isinstance(v, (str, list))]
    return payload, devs, lambda: helpers.make_vcard(name, dn, **kw), special(*strs)


def check_geo(a):
    lat, lng = a['lat'], a['lng']
    payload = call(helpers.make_geo_data, lat, lng)
    devs = []
    m = re.fullmatch(r'geo:(-?\d+(?:\.\d+)?),(-?\d+(?:\.\d+)?)', payload)
    if not m:
        devs.append(Dev('C16/geo-grammar', '%r is not a geo URI' % payload))
    else:
        for got, want in ((m.group(1), lat), (m.group(2), lng)):
            if abs(decimal.Decimal(got) - decimal.Decimal(repr(float(want)))) > decimal.Decimal('0.000000006'):
                devs.append(Dev('C16/geo-value', '%r for lat=%r lng=%r' % (payload, lat, lng)))
    return payload, devs, lambda: helpers.make_geo(lat, lng), False


def check_email(a):
    payload = call(helpers.make_make_email_data, a['to'], a['cc'], a['bcc'], a['subject'], a['body'])
    devs = []
    if not payload.startswith('mailto:'):
        return payload, [Dev('C16/mailto-scheme', payload[:20])], None, True
    rest = payload[7:]
    addr, q, query = rest.partition('?')
    if addr != ','.join(aslist(a['to'])) or '&' in addr:
        devs.append(Dev('C16/mailto-address', 'payload %r' % payload))
    params = [p.partition('=') for p in query.split('&')] if q else []
    exp = []
    if a['cc']:
        exp.append(('cc', ','.join(aslist(a['cc']))))
    if a['bcc']:
        exp.append(('bcc', ','.join(aslist(a['bcc']))))
    if a['subject'] is not None:
        exp.append(('subject', a['subject']))
    if a['body'] is not None:
        exp.append(('body', a['body']))
    got = [(k, unquote(v)) for k, _, v in params]
    if got != exp:
        devs.append(Dev('C16/mailto-fields', 'payload %r parses to %r, expected %r' % (payload, got, exp)))
    if query.count('?') or re.search(r"[^A-Za-z0-9\-._~:/?#\[\]@!$&'()*+,;=%]", payload):
        devs.append(Dev('C16/mailto-not-a-uri', 'payload %r contains characters which are not allowed in a URI' % payload))
    return payload, devs, lambda: helpers.make_email(a['to'], a['cc'], a['bcc'], a['subject'], a['body']), special(a['subject'] or '', a['body'] or '')


def _amount(a):
    kind, v = a
    if kind == 'dec':
        return decimal.Decimal(v)
    if kind == 'float':
        return float(v)
    if kind == 'int':
        return int(v)
    return v


def check_epc(a):
    kw = dict(a)
    amount = _amount(kw.pop('amount'))
    name, iban = kw.pop('name'), kw.pop('iban')
    text, ref, bic, purpose, enc = kw.get('text'), kw.get('reference'), kw.get('bic'), kw.get('purpose'), kw.get('encoding')
    exact = decimal.Decimal(repr(amount)) if isinstance(amount, float) else decimal.Decimal(amount)
    # validity by the documented limits
    invalid = []
    if not name or not 0 < len(name) <= 70:
        invalid.append('name')
    if iban is None or not 4 < len(iban) <= 34:
        invalid.append('iban')
    if bool(text) == bool(ref):
        invalid.append('text-xor-reference')
    if text and len(text) > 140:
        invalid.append('text')
    if ref and len(ref) > 35:
        invalid.append('reference')
    if bic and len(bic) not in (8, 11):
        invalid.append('bic')
    if purpose and len(purpose) != 4:
        invalid.append('purpose')
    if not decimal.Decimal('0.01') <= exact <= decimal.Decimal('999999999.99'):
        invalid.append('amount')
    encno = None
    if enc is not None:
        if isinstance(enc, str):
            encno = EPC_ENC.index(enc.lower()) + 1 if enc.lower() in EPC_ENC else None
        elif isinstance(enc, int) and 1 <= enc <= 8:
            encno = enc
        if encno is None:
            invalid.append('encoding')
    fields = [bic or '', name, iban, purpose or '', ref or '', text or '']
    if encno and not invalid:
        try:
            '\n'.join(fields).encode(EPC_ENC[encno - 1])
        except UnicodeError:
            invalid.append('not-encodable')
    try:
        data = call(helpers._make_epc_qr_data, name, iban, amount, **kw)
    except Refused as ex:
        if invalid:
            return None, [], None, True
        # the only other documented reason is the 331 byte limit
        size = len('\n'.join(['BCD', '002', '1', 'SCT'] + fields[:3] + ['EUR999999999.99'] + fields[3:]).encode('utf-8'))
        if size > 331 - 20:
            return None, [], None, True
        return None, [Dev('C16/epc-valid-input-refused', '%r: %s' % (a, ex))], None, True
    devs = []
    if invalid:
        devs.append(Dev('C16/epc-invalid-input-accepted-' + invalid[0], 'violates %s: %r' % (invalid, a)))
        return data, devs, None, True
    if len(data) > 331:
        devs.append(Dev('C16/epc-too-long', '%d bytes' % len(data)))
    parts = data.split(b'\n')
    try:
        cs = int(parts[2])
        txt = data.decode(EPC_ENC[cs - 1])
    except (ValueError, IndexError, UnicodeError) as ex:
        return data, devs + [Dev('C16/epc-character-set', 'line 3 = %r: %s' % (parts[2:3], ex))], None, True
    if encno is not None and cs != encno:
        devs.append(Dev('C16/epc-character-set', 'encoding %r requested, line 3 says %d' % (enc, cs)))
    lines = txt.split('\n')
    exp = ['BCD', '002', str(cs), 'SCT', bic or '', name, iban, None, purpose or '', ref or '']
    if text:
        exp.append(text)
    if len(lines) != len(exp):
        devs.append(Dev('C16/epc-layout', '%d lines, expected %d: %r' % (len(lines), len(exp), lines)))
    else:
        for i, (g, e) in enumerate(zip(lines, exp)):
            if e is not None and g != e:
                devs.append(Dev('C16/epc-layout', 'line %d is %r, expected %r' % (i + 1, g, e)))
        m = re.fullmatch(r'EUR(\d+(\.\d{1,2})?)', lines[7])
        if not m:
            devs.append(Dev('C16/epc-amount-format', '%r' % lines[7]))
        else:
            want = exact.quantize(decimal.Decimal('0.01'), rounding=decimal.ROUND_HALF_EVEN)
            if decimal.Decimal(m.group(1)) != want and decimal.Decimal(m.group(1)) != exact:
                devs.append(Dev('C16/epc-amount-value', 'amount %r written as %r' % (amount, lines[7])))

    def sym():
        return helpers.make_epc_qr(name, iban, amount, **kw)
    return data, devs, sym, True


CHECKS = {'wifi': check_wifi, 'mecard': check_mecard, 'vcard': check_vcard, 'geo': check_geo, 'email': check_email, 'epc': check_epc}


def check_case(case):
    t = case['t']
    labels = ['factory-' + t]
    try:
        payload, devs, symfn, interesting = CHECKS[t](case['args'])
    except Refused as ex:
        return Outcome([Dev('C16/%s-valid-input-refused' % t, '%r: %s' % (case['args'], ex))], labels + ['refused'], True, True)
    except Crash as ex:
        return Outcome([Dev('C16/crash-%s-%s' % (t, ex.key), str(ex))], labels, True)
    if payload is None:
        return Outcome(devs, labels + ['refused'], True, True)
    if case.get('symbol') and symfn is not None and not devs:
        labels.append('symbol')
        try:
            qr = call(symfn)
        except Refused as ex:
            nbytes = len(payload if isinstance(payload, bytes) else payload.encode('utf-8'))
            if nbytes < 1200:
                devs.append(Dev('C16/symbol-refused', '%s: %s' % (t, ex)))
            qr = None
        except Crash as ex:
            devs.append(Dev('C16/crash-symbol-%s-%s' % (t, ex.key), str(ex)))
            qr = None
        if qr is not None:
            d, ddevs = decode_symbol('C16', qr)
            devs += ddevs
            if d is not None:
                exp = payload if isinstance(payload, bytes) else expected_bytes_single(payload, None, None)[0]
                got = b''.join(s['data'] for s in d['segments'])
                if got != exp:
                    devs.append(Dev('C16/symbol-payload', 'symbol of %s decodes to %r.., payload is %r..' % (t, got[:30], exp[:30])))
                if qr.is_micro:
                    devs.append(Dev('C16/symbol-micro', 'factory returned a Micro QR code'))
                if t == 'epc':
                    if d['level'] != 'M':
                        devs.append(Dev('C16/epc-level', 'EPC symbol has level %s' % d['level']))
                    if d['version'] > 13:
                        devs.append(Dev('C16/epc-version', 'EPC symbol has version %s' % d['version']))
    return Outcome(devs, labels, bool(interesting))


# ------------------------------------------------------------------ strategies
@st.composite
def wifi_cases(draw):
    return {'t': 'wifi', 'symbol': draw(st.booleans()),
            'args': {'ssid': draw(value(True, 1)), 'password': draw(st.one_of(st.none(), value())),
                     'security': draw(st.sampled_from([None, 'WEP', 'WPA', 'wpa', 'nopass', 'WPA2'])), 'hidden': draw(st.booleans())}}


@st.composite
def mecard_cases(draw):
    args = {'name': draw(value(True, 1))}
    for k in ('reading', 'memo', 'nickname', 'pobox', 'roomno', 'houseno', 'city', 'prefecture', 'zipcode', 'country'):
        if draw(st.integers(0, 2)) == 0:
            args[k] = draw(st.one_of(st.none(), value()))
    for k in ('email', 'phone', 'videophone', 'url'):
        if draw(st.integers(0, 2)) == 0:
            args[k] = draw(multi())
    if draw(st.integers(0, 3)) == 0:
        args['birthday'] = draw(st.sampled_from(['19700131', 'D20000229', None]))
    return {'t': 'mecard', 'symbol': draw(st.booleans()), 'args': args}


@st.composite
def vcard_cases(draw):
    args = {'name': draw(value(True, 0)), 'displayname': draw(value(True, 1))}
    for k in ('memo', 'nickname', 'org', 'source', 'pobox', 'street', 'city', 'region', 'zipcode', 'country'):
        if draw(st.integers(0, 3)) == 0:
            args[k] = draw(st.one_of(st.none(), value()))
    for k in ('email', 'phone', 'fax', 'videophone', 'url', 'title', 'photo_uri', 'cellphone', 'homephone', 'workphone'):
        if draw(st.integers(0, 3)) == 0:
            args[k] = draw(multi())
    for k in ('birthday', 'rev'):
        if draw(st.integers(0, 3)) == 0:
            args[k] = draw(st.sampled_from(['2000-01-31', 'D19991231', '2000-01-31T10:20:30Z', '2000-01-31\n', '2000-01-31\r\nEND:VCARD',
                                            '2000-01-31T10:20:30+01:00', '2000-1-1', None]))
    if draw(st.integers(0, 4)) == 0:
        args['lat'] = draw(st.floats(-90, 90).filter(lambda x: x != 0))
        args['lng'] = draw(st.floats(-180, 180).filter(lambda x: x != 0))
    return {'t': 'vcard', 'symbol': draw(st.booleans()), 'args': args}


@st.composite
def geo_cases(draw):
    lat = draw(st.one_of(st.sampled_from([0.0, -0.0, 90, -90, 1e-9, -1e-9, 48.123456789]), st.floats(-90, 90), st.integers(-90, 90)))
    lng = draw(st.one_of(st.sampled_from([180, -180, 0, 0.000000005]), st.floats(-180, 180), st.integers(-180, 180)))
    return {'t': 'geo', 'symbol': draw(st.booleans()), 'args': {'lat': lat, 'lng': lng}}


ADDR = st.sampled_from(['a@b.c', 'd.e@f-g.hi', 'x_y@example.org'])


@st.composite
def email_cases(draw):
    def addrs(none_ok):
        opts = [ADDR, st.lists(ADDR, min_size=1, max_size=3)]
        if none_ok:
            opts.append(st.none())
        return st.one_of(*opts)
    text = st.one_of(st.none(), value(True, 0, 12), st.sampled_from(['', 'Hello World', 'a&b=c?d#e', '100%', 'ü ñ 点', '+1']))
    return {'t': 'email', 'symbol': draw(st.booleans()),
            'args': {'to': draw(addrs(False)), 'cc': draw(addrs(True)), 'bcc': draw(addrs(True)), 'subject': draw(text), 'body': draw(text)}}


EPC_TEXT = st.lists(st.sampled_from(list('abcXYZ019 .,-/:+?') + ['ä', 'ß', '€', 'Ł', 'Ж', 'α', 'ī', '点', ';', '\\', '"']), min_size=1, max_size=12).map(''.join) \
    .map(lambda s: s.strip() or 'N')


@st.composite
def epc_cases(draw):
    args = {'name': draw(st.one_of(EPC_TEXT, EPC_TEXT.map(lambda s: (s * 12)[:70].strip() or 'N'), st.sampled_from(['N' * 70, 'N' * 71, '']))),
            'iban': draw(st.sampled_from(['DE89370400440532013000', 'FI123', 'X' * 34, 'X' * 35, 'ABCD', 'NL91ABNA0417164300']))}
    k = draw(st.integers(0, 9))
    if k < 6:
        args['text'] = draw(st.one_of(EPC_TEXT, st.sampled_from(['t' * 140, 't' * 141, 'ü' * 140])))
    elif k < 9:
        args['reference'] = draw(st.sampled_from(['RF18539007547034', 'R' * 35, 'R' * 36]))
    elif k == 9 and draw(st.booleans()):
        args['text'] = 'both'
        args['reference'] = 'RF18'
    if draw(st.integers(0, 3)) == 0:
        args['bic'] = draw(st.sampled_from(['BHBLDEHHXXX', 'BHBLDEHH', 'BHBLDEH', 'BHBLDEHHXXXX', '']))
    if draw(st.integers(0, 3)) == 0:
        args['purpose'] = draw(st.sampled_from(['GDDS', 'GDD', 'GDDSX', '']))
    if draw(st.integers(0, 2)) == 0:
        args['encoding'] = draw(st.one_of(st.sampled_from(list(EPC_ENC) + [e.upper() for e in EPC_ENC] + ['Utf-8', 'utf-16', 'latin1']),
                                          st.integers(0, 9)))
    cents = draw(st.one_of(st.sampled_from([1, 99999999999, 100000000000, 0, 10, 100, 12345678912, 10000000001, 99999999990]),
                           st.integers(1, 99999999999), st.integers(1, 100000)))
    d = decimal.Decimal(cents) / 100
    how = draw(st.integers(0, 9))
    if how < 4:
        args['amount'] = ('dec', str(d))
    elif how < 6:
        args['amount'] = ('str', str(d))
    elif how < 7 and d == int(d):
        args['amount'] = ('int', str(int(d)))
    elif how < 9 and cents < 10 ** 9:
        args['amount'] = ('float', repr(float(d)))
    else:
        args['amount'] = ('dec', draw(st.sampled_from(['0.009', '0.001', '1000000000', '999999999.995', '-5', '12.345', '0.015'])))
    return {'t': 'epc', 'symbol': draw(st.booleans()), 'args': args}


def required_labels(tier):
    return ['factory-' + t for t in CHECKS] + ['symbol', 'refused']


def phases(tier, seed):
    n = 24000 if tier == 'quick' else 600000
    return [Search('factories', st.one_of(wifi_cases(), mecard_cases(), vcard_cases(), vcard_cases(), geo_cases(), email_cases(), epc_cases(), epc_cases()), n)]
