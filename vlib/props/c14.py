"""C14 - arguments are honoured or refused with ValueError; nothing else escapes."""
import contextlib
import io
import os
import shutil
import signal
import tempfile

import segno
from segno import cli
from hypothesis import strategies as st

from .. import qrref as R
from .. import colors
from ..common import call, Refused, Crash, dec_content, enc_content, decode_symbol, expected_parts, norm_mode, matrix_of
from ..runner import Dev, Outcome, Enum, Search, ROOT
from .c01 import payload_and_eci_devs
from .c12 import well_formed, as_bytes, BINARY

PROPERTY = 'C14'
LEVEL = 'exploration'
RULE = ('Hypothesis cases over the documented argument domains of make / make_qr / make_micro / make_sequence including '
        'boundary and malformed values (content "", b"", 0, negative ints; version 0, 41, "m5", "M0", "x"; error "x", "", "-"; '
        'mode "eci", ""; mask 8, -1, "8", "x"; unknown codec; symbol_count 0, 17, -1; the documented exclusions H / ECI / '
        'hanzi / Structured Append with Micro QR) - outcome must be a symbol passing the C01-C03 checks, a ValueError, or a '
        'LookupError for an unknown codec; anything else is bucketed by (exception type, innermost segno frame). Spelling '
        'relation (metamorphic): letter case of version / error / mode / kind, numeric strings for version / mask give the '
        'identical matrix / bytes. Enumerated grid: every output kind x malformed colour / scale / border / kind values must '
        'raise ValueError. CLI in-process: status 0 only with a parsable output file; a ValueError of make -> exit status 1 '
        'with the library message on stderr. Each case runs under a 120 s watchdog (endless loop = violation). Non-trivial: '
        'every case; distinct by sha1(case).')
ASSUMPTIONS = ['the documented argument types (docs/, docstrings) delimit the generated domain; wrong types are not generated',
               'watchdog of 120 s per case is the only place a clock is an oracle']

WATCHDOG = int(os.environ.get('VERIF_CASE_TIMEOUT', '120'))


class _Timeout(BaseException):
    pass


@contextlib.contextmanager
def watchdog(seconds):
    def handler(signum, frame):
        raise _Timeout()
    old = signal.signal(signal.SIGALRM, handler)
    signal.setitimer(signal.ITIMER_REAL, seconds)
    try:
        yield
    finally:
        signal.setitimer(signal.ITIMER_REAL, 0)
        signal.signal(signal.SIGALRM, old)


def canon_version(v):
    """Returns ('ok', version) / ('bad', None) / (None, None) for absent."""
    if v is None:
        return None, None
    if isinstance(v, str) and v.upper() in R.MICRO:
        return 'ok', v.upper()
    try:
        n = int(v)
    except (TypeError, ValueError):
        return 'bad', None
    return ('ok', n) if 1 <= n <= 40 else ('bad', None)


def must_refuse(fn, content, kw):
    """Reasons why the documentation excludes this call (empty list = no documented exclusion)."""
    why = []
    vs, v = canon_version(kw.get('version'))
    if vs == 'bad':
        why.append('version outside M1-M4 / 1-40')
    err = kw.get('error')
    if err is not None and not (isinstance(err, str) and err.upper() in ('L', 'M', 'Q', 'H')):
        why.append('unknown error level')
    mode = kw.get('mode')
    nm = norm_mode(mode)
    if nm == 'INVALID':
        why.append('unknown mode')
    micro = kw.get('micro')
    if fn == 'make_micro':
        micro = True
    elif fn in ('make_qr', 'make_sequence'):
        micro = False if fn == 'make_qr' else None
    is_micro_version = vs == 'ok' and v in R.MICRO
    wants_micro = micro is True or is_micro_version
    if fn == 'make_sequence':
        if is_micro_version:
            why.append('Structured Append with Micro QR')
        sc = kw.get('symbol_count')
        if sc is not None and not 1 <= sc <= 16:
            why.append('symbol_count outside 1-16')
        if sc is None and kw.get('version') is None:
            why.append('neither version nor symbol_count')
    if wants_micro:
        if isinstance(err, str) and err.upper() == 'H':
            why.append('level H with Micro QR')
        if kw.get('eci'):
            why.append('ECI with Micro QR')
        if nm == 'hanzi':
            why.append('hanzi with Micro QR')
    if micro is False and is_micro_version and fn != 'make_sequence':
        why.append('Micro version with micro=False')
    if micro is True and vs == 'ok' and not is_micro_version:
        why.append('QR version with micro=True')
    if vs == 'ok' and nm not in (None, 'INVALID') and R.cci_bits(v, nm) is None:
        why.append('mode not available in the version')
    mask = kw.get('mask')
    if mask is not None:
        try:
            m = int(mask)
            if not 0 <= m <= 7 or (wants_micro and m > 3):
                why.append('mask out of range')
        except (TypeError, ValueError):
            why.append('mask is not a number')
    return why


def unknown_codec(enc):
    if not enc:
        return False
    import codecs
    try:
        codecs.lookup(enc)
        return False
    except LookupError:
        return True


def symbol_devs(qr, content, kw, sequence=False):
    """C01-C03 checks for a returned symbol (payload only for single symbols)."""
    d, devs = decode_symbol('C14', qr)
    if d is None:
        return devs
    if not sequence:
        try:
            parts = expected_parts(content, kw.get('mode'), kw.get('encoding'))
            devs += payload_and_eci_devs('C14', d, parts, bool(kw.get('eci')))
        except (UnicodeError, LookupError):
            devs.append(Dev('C14/accepted-unencodable', 'content cannot be encoded as requested but a symbol was returned'))
    return devs


def run_make(fn, content, kw):
    """Returns ('ok', result) / ('refused', exc) / ('lookup', exc) / ('crash', Crash)."""
    try:
        res = call(getattr(segno, fn), content, **kw)
        if fn == 'make_sequence':
            res = call(list, res)
        return 'ok', res
    except Refused as ex:
        return 'refused', ex.exc
    except Crash as ex:
        if isinstance(ex.exc, LookupError) and type(ex.exc) is LookupError:
            return 'lookup', ex.exc
        return 'crash', ex


def check_make(case):
    content = dec_content(case['content'])
    kw = dict(case['kw'])
    fn = case['fn']
    labels = ['make', 'fn-' + fn]
    why = must_refuse(fn, content, kw)
    status, res = run_make(fn, content, kw)
    devs = []
    if status == 'crash':
        devs.append(Dev('C14/escaped-%s' % res.key, '%s(%r, **%r) raised %s' % (fn, str(content)[:40], kw, res)))
    elif status == 'lookup':
        labels.append('lookup-error')
        if not unknown_codec(kw.get('encoding')) and not any(isinstance(p, tuple) and len(p) > 2 and unknown_codec(p[2])
                                                               for p in (content if isinstance(content, list) else [])):
            devs.append(Dev('C14/LookupError-for-known-codec', '%r' % (res,)))
    elif status == 'refused':
        labels.append('refused')
    else:
        labels.append('accepted')
        if why:
            devs.append(Dev('C14/documented-exclusion-accepted', '%s accepted although: %s (kw %r)' % (fn, '; '.join(why), kw)))
        syms = res if fn == 'make_sequence' else [res]
        for qr in syms[:16]:
            devs += symbol_devs(qr, content, kw, sequence=(fn == 'make_sequence'))
    if why:
        labels.append('excluded-combination')
    return Outcome(devs, labels, True, status in ('refused', 'lookup'))


def check_spelling(case):
    content = dec_content(case['content'])
    fn = case['fn']
    a = run_make(fn, content, dict(case['kw']))
    b = run_make(fn, content, dict(case['alt']))
    labels = ['spelling']
    devs = []
    for st_, r in (a, b):
        if st_ == 'crash':
            devs.append(Dev('C14/escaped-%s' % r.key, str(r)))
    if devs:
        return Outcome(devs, labels, True)
    if a[0] != b[0]:
        devs.append(Dev('C14/spelling-changes-acceptance', '%r -> %s, %r -> %s' % (case['kw'], a[0], case['alt'], b[0])))
    elif a[0] == 'ok':
        ma = [matrix_of(q) for q in (a[1] if fn == 'make_sequence' else [a[1]])]
        mb = [matrix_of(q) for q in (b[1] if fn == 'make_sequence' else [b[1]])]
        if ma != mb:
            devs.append(Dev('C14/spelling-changes-symbol', '%r and %r give different symbols' % (case['kw'], case['alt'])))
        labels.append('accepted')
    return Outcome(devs, labels, True, a[0] != 'ok')


def check_kind_spelling(case):
    qr = segno.make('SPELLING', micro=False)
    kind = case['kind']
    outs = []
    for k in (kind, kind.upper(), kind.title()):
        buf = io.BytesIO() if kind in BINARY else io.StringIO()
        try:
            call(qr.save, buf, kind=k, **case.get('opts', {}))
            data = as_bytes(buf.getvalue())
            if kind == 'svgz':
                import gzip
                data = gzip.decompress(data)
            outs.append(data)
        except Refused as ex:
            outs.append(('refused', str(ex)))
        except Crash as ex:
            return Outcome([Dev('C14/escaped-' + ex.key, str(ex))], ['kind-spelling'], True)
    from .c12 import mask_timestamps
    norm = [mask_timestamps(kind, o) if isinstance(o, bytes) else o for o in outs]
    devs = []
    if any(x != norm[0] for x in norm[1:]) or not isinstance(norm[0], bytes):
        devs.append(Dev('C14/kind-spelling', 'kind %r in different letter case gives different results' % kind))
    return Outcome(devs, ['kind-spelling'], True)


BAD_COLOURS = ['#12', '#12345', '#ggg', '', 'nocolor', '#1234567', [1, 2], [256, 0, 0], [0, 0, 0, 256], [1, 2, 3, 4, 5], [-1, 0, 0],
               [0, 0, 0, -1], '#', 'rgb(1,2,3)', '##fff', '##12ab00', '###0000ff', '#fff#', ' #fff', '#fff ', '#ff ff', '0x123456', '#-12345']
COLOUR_KINDS = ('png', 'svg', 'eps', 'pdf', 'pam', 'ppm', 'xpm')
SCALE_KINDS = ('png', 'svg', 'eps', 'pdf', 'pam', 'ppm', 'xpm', 'xbm', 'pbm', 'tex')
ALL_KINDS = ('png', 'svg', 'eps', 'pdf', 'pam', 'ppm', 'xpm', 'xbm', 'pbm', 'tex', 'txt', 'ans')


def check_serializer(case):
    qr = segno.make('1' if case.get('micro') else 'SERIALIZER', micro=None if case.get('micro') else False)
    kind = case['kind']
    kw = {k: colors.to_arg(v) for k, v in case['opts'].items()}
    labels = ['serializer', 'kind-' + str(kind)]
    route = case.get('route', 'stream')
    work = None
    try:
        if route == 'path':
            work = tempfile.mkdtemp(prefix='c14-', dir=os.path.join(ROOT, '.work'))
            call(qr.save, os.path.join(work, 'out.' + kind), **kw)
        else:
            buf = io.BytesIO() if kind in BINARY else io.StringIO()
            call(qr.save, buf, kind=kind, **kw)
        if case['bad'] is None:
            return Outcome((), labels + ['valid-colour-written'], True)
        return Outcome([Dev('C14/invalid-%s-accepted-%s' % (case['bad'], kind), 'save(kind=%r, %r) did not raise' % (kind, kw))], labels, True)
    except Refused:
        return Outcome((), labels + ['refused'], True, True)
    except Crash as ex:
        return Outcome([Dev('C14/escaped-%s-%s' % (kind, ex.key), 'save(kind=%r, %r): %s' % (kind, kw, ex))], labels, True)
    finally:
        if work:
            shutil.rmtree(work, ignore_errors=True)


def serializer_grid():
    cases = []
    for kind in COLOUR_KINDS:
        for bad in BAD_COLOURS:
            for opt in ('dark', 'light'):
                if kind in ('eps', 'pdf') and isinstance(bad, list) and len(bad) == 4 and bad[3] in (256, -1):
                    pass
                cases.append({'what': 'serializer', 'kind': kind, 'opts': {opt: bad}, 'bad': 'colour'})
        if kind in ('png', 'svg', 'ppm'):
            for bad in BAD_COLOURS[:6]:
                cases.append({'what': 'serializer', 'kind': kind, 'opts': {'finder_dark': bad}, 'bad': 'colour'})
    # well-formed colours with an alpha channel: written, or refused with ValueError by a format without transparency
    for kind in COLOUR_KINDS:
        for ok in ([255, 0, 0, 0.5], [0, 0, 0, 0.0], [0, 0, 0, 1.0], '#ff000080', [255, 0, 0, 128], '#0008', [0, 0, 0, 0], [255, 255, 255, 254]):
            for opts in ({'dark': ok}, {'light': ok}, {'dark': ok, 'light': None}, {'dark': ok, 'light': '#12345678'}):
                cases.append({'what': 'serializer', 'kind': kind, 'opts': opts, 'bad': None})
    for kind in SCALE_KINDS:
        for bad in (0, -1, -0.5, -3):
            cases.append({'what': 'serializer', 'kind': kind, 'opts': {'scale': bad}, 'bad': 'scale'})
        if kind in ('png', 'pam', 'ppm', 'xpm', 'xbm', 'pbm'):
            for bad in (0.5, 0.99):
                cases.append({'what': 'serializer', 'kind': kind, 'opts': {'scale': bad}, 'bad': 'scale'})
    for kind in ALL_KINDS:
        for bad in (-1, 1.5, -4, 0.5, -0.5):
            cases.append({'what': 'serializer', 'kind': kind, 'opts': {'border': bad}, 'bad': 'border'})
            cases.append({'what': 'serializer', 'kind': kind, 'opts': {'border': bad}, 'bad': 'border', 'micro': True, 'route': 'path'})
    for bad in ('foo', '', 'jpg', 'svgx', 'PNGG', 'p n g'):
        cases.append({'what': 'serializer', 'kind': bad, 'opts': {}, 'bad': 'kind'})
    for kind in ALL_KINDS + ('svgz',):
        cases.append({'what': 'kind-spelling', 'kind': kind})
    return cases


def check_cli(case):
    argv = list(case['argv'])
    kind = case.get('kind')
    labels = ['cli']
    work = tempfile.mkdtemp(prefix='c14-', dir=os.path.join(ROOT, '.work'))
    out_path = None
    if kind:
        out_path = os.path.join(work, 'out.' + kind)
        argv = ['-o', out_path] + argv
    so, se = io.StringIO(), io.StringIO()
    devs = []
    code = None
    try:
        with contextlib.redirect_stdout(so), contextlib.redirect_stderr(se):
            try:
                code = cli.main(list(argv))
            except SystemExit as ex:
                code = ('exit', ex.code)
            except ValueError as ex:
                code = ('ValueError', str(ex))
            except (KeyboardInterrupt, _Timeout):
                raise
            except Exception as ex:  # noqa: BLE001
                c = Crash(ex)
                devs.append(Dev('C14/cli-escaped-' + c.key, 'argv %r: %s' % (case['argv'], c)))
                code = ('crash', None)
        # what does the library say about the symbol?
        mk = case.get('mk')
        lib = None
        if mk is not None:
            fn = 'make_sequence' if case.get('seq') else 'make'
            lib = run_make(fn, case['content'], mk)
        if code == 0:
            labels.append('status-0')
            if out_path:
                if not os.path.exists(out_path) and not case.get('seq'):
                    devs.append(Dev('C14/cli-status-0-without-output', 'argv %r' % (case['argv'],)))
                elif os.path.exists(out_path):
                    with open(out_path, 'rb') as f:
                        err = well_formed(kind, f.read())
                    if err:
                        devs.append(Dev('C14/cli-output-malformed', '%s: %s' % (kind, err)))
            elif not so.getvalue():
                devs.append(Dev('C14/cli-status-0-without-output', 'nothing printed for argv %r' % (case['argv'],)))
            if lib is not None and lib[0] in ('refused', 'lookup'):
                devs.append(Dev('C14/cli-status-0-for-refused-symbol', 'library refuses %r, the CLI returned 0' % (mk,)))
        elif isinstance(code, tuple) and code[0] == 'exit':
            labels.append('exit-%s' % code[1])
            if code[1] == 0:
                devs.append(Dev('C14/cli-exit-0-via-SystemExit', 'argv %r' % (case['argv'],)))
            if lib is not None and lib[0] in ('refused', 'lookup') and code[1] == 1:
                if str(lib[1]) not in se.getvalue():
                    devs.append(Dev('C14/cli-message', 'stderr %r does not carry the library message %r' % (se.getvalue()[:80], str(lib[1])[:80])))
                if 'Traceback' in se.getvalue():
                    devs.append(Dev('C14/cli-traceback', 'traceback on stderr'))
            if lib is not None and lib[0] == 'ok' and code[1] == 1 and not case.get('bad_output'):
                devs.append(Dev('C14/cli-exit-1-for-valid-symbol', 'library accepts %r, CLI exit 1: %s' % (mk, se.getvalue()[:80])))
        elif isinstance(code, tuple) and code[0] == 'ValueError':
            labels.append('valueerror-escaped')
            # a refusal raised while creating the symbol must be reported as exit status 1
            if lib is not None and lib[0] == 'refused':
                devs.append(Dev('C14/cli-refusal-not-reported', 'ValueError escaped instead of exit status 1: %s' % code[1][:80]))
        if lib is not None and lib[0] in ('refused', 'lookup') and not (isinstance(code, tuple) and code[0] == 'exit' and code[1] in (1, 2)) \
                and not (isinstance(code, tuple) and code[0] in ('ValueError', 'crash')):
            devs.append(Dev('C14/cli-refusal-not-reported', 'library refuses %r, CLI result %r' % (mk, code)))
    finally:
        shutil.rmtree(work, ignore_errors=True)
    return Outcome(devs, labels, True, code != 0)


def check_case(case):
    what = case.get('what', 'make')
    try:
        with watchdog(WATCHDOG):
            if what == 'make':
                return check_make(case)
            if what == 'spelling':
                return check_spelling(case)
            if what == 'serializer':
                return check_serializer(case)
            if what == 'kind-spelling':
                return check_kind_spelling(case)
            return check_cli(case)
    except _Timeout:
        return Outcome([Dev('C14/no-termination', 'case did not finish within %d s' % WATCHDOG)], ['timeout'], True)


# ------------------------------------------------------------------ strategies
CONTENTS = st.one_of(
    st.sampled_from(['', '0', '12', 'A', 'ab', 'é', '点', '点茗', '书', ' ', '\n', 'HELLO WORLD', 'a' * 3000, '1' * 7090, '1' * 7089, 'A' * 4297]),
    st.sampled_from([b'', b'\x93', b'\x93\x5f', b'\xff', b'\x82\x30', b'\xb1\x30', b'12', b'\x00']),
    st.sampled_from([0, 7, -1, 10 ** 20, -10 ** 5]),
    st.text(alphabet='01289ABZ az,;éü点茗书', max_size=12),
    st.binary(max_size=6),
)
VERSIONS = [1, 40, 0, 41, -1, -2, -3, '0', '-1', '-2', '-3', '00', '1', '40', '41', 'm1', 'M1', 'M2', 'm3', 'M4', 'm5', 'M0', 'x', '', 7, 10, 27, ' 2', '2 ']
ERRORS = ['l', 'L', 'm', 'M', 'q', 'Q', 'h', 'H', 'x', '', '-', 'LL', ' L']
MODES = ['numeric', 'alphanumeric', 'byte', 'kanji', 'hanzi', 'NUMERIC', 'Byte', 'Kanji', 'eci', '', 'structured', 1, 2, 4, 8, 13]
MASKS = [0, 1, 3, 4, 7, 8, -1, '0', '7', '8', 'x', '', '3', 100]
ENCS = ['utf-8', 'UTF-8', 'latin1', 'iso-8859-1', 'shift_jis', 'ascii', 'utf-16', 'cp437', 'nope', 'gb2312', 'x-unknown-codec']


@st.composite
def make_cases(draw):
    fn = draw(st.sampled_from(['make', 'make', 'make_qr', 'make_micro', 'make_sequence']))
    content = draw(CONTENTS)
    kw = {}
    for name, pool, p in (('version', VERSIONS, 6), ('error', ERRORS, 5), ('mode', MODES, 5), ('mask', MASKS, 4), ('encoding', ENCS, 3)):
        if draw(st.integers(0, 9)) < p:
            kw[name] = draw(st.sampled_from(pool))
    if fn in ('make', 'make_qr') and draw(st.integers(0, 9)) < 3:
        kw['eci'] = draw(st.booleans())
    if fn == 'make' and draw(st.integers(0, 9)) < 4:
        kw['micro'] = draw(st.sampled_from([None, True, False]))
    if draw(st.integers(0, 9)) < 3:
        kw['boost_error'] = draw(st.booleans())
    if fn == 'make_sequence' and draw(st.integers(0, 9)) < 7:
        kw['symbol_count'] = draw(st.sampled_from([0, 1, 2, 16, 17, -1, 5]))
    if draw(st.integers(0, 9)) < 2 and isinstance(content, str) and fn != 'make_sequence':
        content = [content, draw(st.sampled_from(['12', 'AB', ('点', 8), ('x', None, 'utf-8'), ('y', 4, 'nope'), b'\x93']))]
    return {'what': 'make', 'fn': fn, 'content': enc_content(content), 'kw': kw}


@st.composite
def spelling_cases(draw):
    fn = draw(st.sampled_from(['make', 'make', 'make_qr', 'make_micro', 'make_sequence']))
    content = draw(st.sampled_from(['12345', 'HELLO', 'hello world', '点茗', 'A' * 60, '7' * 100]))
    kw, alt = {}, {}
    if draw(st.integers(0, 9)) < 6:
        v = draw(st.sampled_from(['M1', 'M2', 'M3', 'M4', 1, 2, 7, 10, 40]))
        if fn in ('make_qr', 'make_sequence') and isinstance(v, str):
            v = 3
        kw['version'] = v
        alt['version'] = v.lower() if isinstance(v, str) else draw(st.sampled_from([str(v), v]))
    if draw(st.integers(0, 9)) < 6:
        e = draw(st.sampled_from(['L', 'M', 'Q', 'H']))
        kw['error'] = e
        alt['error'] = e.lower()
    if draw(st.integers(0, 9)) < 5:
        m = draw(st.sampled_from(['numeric', 'alphanumeric', 'byte', 'kanji']))
        kw['mode'] = m
        alt['mode'] = draw(st.sampled_from([m.upper(), m.title()]))
    if draw(st.integers(0, 9)) < 5:
        k = draw(st.integers(0, 7))
        kw['mask'] = k
        alt['mask'] = str(k)
    if fn == 'make_sequence' and 'version' not in kw:
        kw['symbol_count'] = alt['symbol_count'] = draw(st.integers(1, 4))
    if draw(st.integers(0, 9)) < 2:
        kw['encoding'] = 'utf-8'
        alt['encoding'] = 'UTF-8'
    return {'what': 'spelling', 'fn': fn, 'content': enc_content(content), 'kw': kw, 'alt': alt}


@st.composite
def cli_cases(draw):
    content = draw(st.sampled_from(['Hello', '12345', 'HELLO WORLD', 'A' * 30, '点', 'x' * 3000, '1' * 8000]))
    mk = {'micro': False, 'boost_error': True, 'error': None, 'version': None, 'mode': None, 'mask': None, 'encoding': None}
    argv = []
    seq = False
    if draw(st.integers(0, 9)) < 3:
        argv.append('--micro')
        mk['micro'] = True
    if draw(st.integers(0, 9)) < 5:
        v = draw(st.sampled_from(['1', '5', '40', '41', '0', 'M1', 'm2', 'M4', 'M5', 'x', '-1' if False else '2']))
        argv += ['--version', v]
        mk['version'] = v
        if v.upper() in ('M1', 'M2', 'M3', 'M4') and not mk['micro']:
            mk['micro'] = None
    if draw(st.integers(0, 9)) < 4:
        e = draw(st.sampled_from(['L', 'm', 'Q', 'h', '-']))
        argv += ['--error', e]
        mk['error'] = None if e == '-' else e.upper()
    if draw(st.integers(0, 9)) < 3:
        m = draw(st.sampled_from(['numeric', 'alphanumeric', 'byte', 'kanji', 'hanzi', 'BYTE']))
        argv += ['--mode', m]
        mk['mode'] = m.lower()
    if draw(st.integers(0, 9)) < 3:
        p = draw(st.sampled_from([0, 3, 4, 7, 8, -1]))
        argv += ['--pattern=%d' % p]
        mk['mask'] = p
    if draw(st.integers(0, 9)) < 2:
        enc = draw(st.sampled_from(['utf-8', 'latin1', 'ascii', 'nope']))
        argv += ['--encoding', enc]
        mk['encoding'] = enc
    if draw(st.integers(0, 9)) < 2:
        argv.append('--no-error-boost')
        mk['boost_error'] = False
    if draw(st.integers(0, 9)) < 2:
        seq = True
        argv.append('--seq')
        mk.pop('micro')
        if draw(st.booleans()):
            sc = draw(st.sampled_from([0, 1, 2, 16, 17]))
            argv += ['--symbol-count', str(sc)]
            mk['symbol_count'] = sc
        else:
            mk['symbol_count'] = None
    kind = draw(st.sampled_from([None, None, 'png', 'svg', 'txt', 'pdf', 'eps', 'xpm', 'svgz', 'pbm']))
    bad_output = False
    if kind and draw(st.integers(0, 9)) < 2:
        argv += draw(st.sampled_from([['--scale', '0'], ['--border', '-1'], ['--dark', '#12'], ['--scale', '-2'], ['--light', 'nocolor']]))
        bad_output = True
    if not kind and draw(st.booleans()):
        argv.append('--compact')
    case = {'what': 'cli', 'argv': argv + [content], 'content': content, 'mk': mk, 'seq': seq, 'bad_output': bad_output}
    if kind:
        case['kind'] = kind
    return case


def exclusion_grid():
    """The documented exclusions, spelled out."""
    cases = []

    def add(fn, content, **kw):
        cases.append({'what': 'make', 'fn': fn, 'content': enc_content(content), 'kw': kw})
    for v in ('M1', 'M2', 'M3', 'M4', 'm4'):
        add('make', '1', version=v, error='H')
        add('make', '1', version=v, eci=True)
        add('make', '书', version=v, mode='hanzi')
        add('make_sequence', '1', version=v)
        for sc in (1, 2, 3, 16):
            # Structured Append with a Micro QR version, also when a symbol count is given
            add('make_sequence', 'ABCDEFGH12345678', version=v, symbol_count=sc)
            add('make_sequence', '12345678901234567', version=v, symbol_count=sc, error='L')
        add('make', '1', version=v, micro=False)
        for mask in (4, 5, 7, 8, '4'):
            add('make', '1', version=v, mask=mask)
    add('make_micro', '1', error='H')
    add('make_micro', '书', mode='hanzi')
    add('make', '1', micro=True, eci=True)
    for mode, content in (('numeric', '123'), ('alphanumeric', 'AB'), ('kanji', '点'), ('byte', 'ab'), ('NUMERIC', '7'), (1, '42')):
        add('make', content, micro=True, eci=True, mode=mode)
        add('make', content, version='M4', eci=True, mode=mode)
        add('make', content, micro=True, error='H', mode=mode)
    add('make', '1', micro=True, error='h')
    add('make', '1', micro=True, version=1)
    add('make', 'A', version='M1')
    add('make', 'a', version='M2')
    add('make', 'a', version='M1', mode='byte')
    add('make', '点', version='M2', mode='kanji')
    for mask in (8, -1, '8', 100):
        add('make', 'HELLO', mask=mask, micro=False)
        add('make_qr', 'HELLO', mask=mask)
        add('make_sequence', 'HELLO', mask=mask, version=1)
    for mask in (4, 7):
        add('make_micro', '1', mask=mask)
        add('make', '1', mask=mask)  # automatic version M1: Micro QR masks are 0..3
    for v in (0, 41, -1, -2, -3, -4, 'm5', 'M0', 'x', '', '41', '0', '-1', '-2', '-3', '-4', '00', '-0', '100', 'M', 'm', '4M'):
        add('make', '1', version=v)
        add('make_sequence', '1', version=v)
        add('make_micro', '1', version=v)
        add('make_qr', '1', version=v)
    for sc in (0, 17, -1, 100):
        add('make_sequence', '1234567890' * 4, symbol_count=sc)
    add('make_sequence', '123')
    for e in ('x', '', 'LL', '-'):
        add('make', '1', error=e)
    for m in ('eci', '', 'structured', 'foo'):
        add('make', '1', mode=m)
    # contents which are not representable in the requested mode
    add('make', 'a', mode='numeric')
    add('make', 'a', mode='alphanumeric')
    add('make', b'\x93', mode='kanji')
    add('make', b'\x93', mode='hanzi')
    add('make', 'ab', mode='kanji')
    add('make', '', mode='numeric')
    return cases


def required_labels(tier):
    return ['make', 'spelling', 'serializer', 'kind-spelling', 'cli', 'excluded-combination', 'lookup-error', 'refused', 'accepted',
            'status-0', 'exit-1', 'fn-make_sequence', 'fn-make_micro']


def _fuzz(tier):
    """Coverage-guided phase (atheris), thorough tier (or VERIF_FUZZ_RUNS=<n> in any tier)."""
    import os
    runs = int(os.environ.get('VERIF_FUZZ_RUNS', '0' if tier == 'quick' else '320000'))
    if not runs:
        return []
    from .. import fuzz
    return [fuzz.fuzz_phase(__name__, runs)]


def phases(tier, seed):
    os.makedirs(os.path.join(ROOT, '.work'), exist_ok=True)
    n = 19200 if tier == 'quick' else 600000
    return [
        Enum('documented-exclusions', exclusion_grid, exhaustive=True, note='every documented exclusion spelled out'),
        Enum('serializer-validation', serializer_grid, exhaustive=True,
             note='every output kind x malformed colour / scale / border / kind values; kind spelling'),
        Search('make', make_cases(), n),
        Search('spelling', spelling_cases(), n // 4),
        Search('cli', cli_cases(), n // 4),
    ] + _fuzz(tier)
