"""C04 - smallest fitting symbol is chosen; overflow is reported, never truncated."""
import segno
from hypothesis import strategies as st

from .. import qrref as R
from .. import gens
from ..common import (call, Refused, Crash, dec_content, enc_content, decode_symbol, expected_parts,
                      segment_bits, version_class, norm_mode, representable, auto_mode)
from ..runner import Dev, Outcome, Enum, Search
from .c01 import payload_and_eci_devs

PROPERTY = 'C04'
LEVEL = 'exploration'
RULE = ('(a) exhaustive boundary enumeration: for each mode (5) x level {None,L,M,Q,H} x micro {None,True,False} '
        'and each admissible version v, both n = maxlen(v) and n = maxlen(v)+1 characters of mode-pure content '
        '(these are all points where the reference choice can change), boost_error=False, mask=0; '
        '(b) the same lengths with a requested version: the exact one, the previous one (must raise '
        'DataOverflowError), a larger one; (c) eci=True with Latin-1 and with non-Latin-1 byte content (+12 bit '
        'header, no Micro); (d) Hypothesis multi-part / free cases: the segment structure is taken from the '
        'decoded symbol and re-costed for every smaller admissible version. Every accepted symbol is also '
        'decoded and compared with the content (no silent cut). Non-trivial: length within 1 of a capacity '
        'boundary or a decoded multi-segment symbol; distinct by sha1(case).')
ASSUMPTIONS = ['capacity model: ISO Tables 2, 3, 7 as derived in vlib/qrref.py', 'vlib/qrref.py decoder']

ORDER = R.ALL_VERSIONS
CONTENT = {'numeric': '1234567890', 'alphanumeric': 'AB C$%*+-./:9Z', 'byte': 'abc;d,e/f', 'kanji': '点茗漢字', 'hanzi': '书读百遍'}


def pure_content(mode, n):
    base = CONTENT[mode]
    return (base * (n // len(base) + 1))[:n]


def admissible(v, lvl, micro, eci):
    """Is version v admissible under the rules of the statement?  Returns the level to use or False."""
    if R.is_micro(v):
        if micro is False or eci:
            return False
        if v == 'M1':
            return None if lvl is None else False
    elif micro is True:
        return False
    use = lvl or 'L'
    if use not in R.levels_of(v):
        return False
    return use


def cost(v, segs):
    """segs: [(mode, nbytes, eci_header)] -> bits or None if impossible in v."""
    total = 0
    for mode, nbytes, hdr in segs:
        b = segment_bits(v, mode, nbytes, hdr)
        if b is None:
            return None
        total += b
    return total


def ref_version(segs, lvl, micro, eci):
    for v in ORDER:
        use = admissible(v, lvl, micro, eci)
        if use is False:
            continue
        c = cost(v, segs)
        if c is not None and c <= R.data_capacity_bits(v, use):
            return v
    return None


def boundary_cases():
    cases = []
    for mode in gens.MODES:
        for lvl in (None, 'L', 'M', 'Q', 'H'):
            for micro in (None, True, False):
                ns = {1, 2}
                for v in ORDER:
                    use = admissible(v, lvl, micro, False)
                    if use is False or R.cci_bits(v, mode) is None:
                        continue
                    mx = gens.max_len(v, use, mode)
                    ns.update((mx, mx + 1))
                if mode == 'byte':
                    ns.add(0)
                for n in sorted(x for x in ns if x >= 0 and (x > 0 or mode == 'byte')):
                    kw = {'boost_error': False, 'mask': 0}
                    if lvl is not None:
                        kw['error'] = lvl
                    if micro is not None:
                        kw['micro'] = micro
                    if mode == 'hanzi':
                        kw['mode'] = 'hanzi'
                    cases.append({'kind': 'boundary', 'mode': mode, 'n': n, 'kw': kw})
    return cases


def version_request_cases():
    cases = []
    qr = [v for v in ORDER]
    for mode in gens.MODES:
        for lvl in ('L', 'M', 'Q', 'H', None):
            for i, v in enumerate(qr):
                use = admissible(v, lvl, None, False)
                if use is False or R.cci_bits(v, mode) is None:
                    continue
                mx = gens.max_len(v, use, mode)
                if mx < 1:
                    continue
                base = {'boost_error': False, 'mask': 1}
                if lvl is not None:
                    base['error'] = lvl
                if mode == 'hanzi':
                    base['mode'] = 'hanzi'
                reqs = [v]
                # previous and a larger version in which mode and level exist
                prev = [w for w in qr[:i] if admissible(w, lvl, None, False) is not False and R.cci_bits(w, mode) is not None]
                nxt = [w for w in qr[i + 1:] if admissible(w, lvl, None, False) is not False]
                if prev:
                    reqs.append(prev[-1])
                if nxt:
                    reqs.append(nxt[min(2, len(nxt) - 1)])
                for n in (mx, mx + 1):
                    for r in reqs:
                        kw = dict(base, version=r)
                        cases.append({'kind': 'request', 'mode': mode, 'n': n, 'kw': kw})
    return cases


def eci_cases():
    cases = []
    for enc in ('iso-8859-1', 'utf-8', 'cp1252', None, 'latin1', 'ISO-8859-1'):
        for lvl in (None, 'L', 'M', 'Q', 'H'):
            for micro in (None, False):
                for v in range(1, 41):
                    use = lvl or 'L'
                    hdr = enc not in (None, 'iso-8859-1')
                    mx = (R.data_capacity_bits(v, use) - 4 - R.cci_bits(v, 'byte') - (12 if hdr else 0)) // 8
                    mx = min(mx, (1 << R.cci_bits(v, 'byte')) - 1)
                    for n in (mx, mx + 1):
                        kw = {'boost_error': False, 'mask': 2, 'eci': True}
                        if enc:
                            kw['encoding'] = enc
                        if lvl:
                            kw['error'] = lvl
                        if micro is not None:
                            kw['micro'] = micro
                        cases.append({'kind': 'eci', 'mode': 'byte', 'n': n, 'kw': kw})
                        if v % 5 == 0:
                            cases.append({'kind': 'eci', 'mode': 'byte', 'n': n, 'kw': dict(kw, version=v)})
    # short contents: no Micro with eci
    for n in (1, 2, 5):
        for mode in ('numeric', 'alphanumeric', 'byte'):
            cases.append({'kind': 'eci', 'mode': mode, 'n': n, 'kw': {'eci': True, 'boost_error': False, 'mask': 0}})
    return cases


def _requested_version(kw):
    rv = kw.get('version')
    if rv is None:
        return None
    if isinstance(rv, str) and rv.upper() in R.MICRO:
        return rv.upper()
    return int(rv)


def check_enumerated(case):
    mode, n, kw = case['mode'], case['n'], dict(case['kw'])
    content = pure_content(mode, n)
    lvl, micro, eci = kw.get('error'), kw.get('micro'), bool(kw.get('eci'))
    enc = kw.get('encoding')
    hdr = eci and mode == 'byte' and enc not in (None, 'iso-8859-1')
    # other spellings of ISO 8859-1: the statement counts the header "where one is written"; whether one is
    # written for an alias is read from the returned symbol, on a refusal both readings are considered
    alias = bool(hdr and gens_codec(enc) == 'iso8859-1')
    nbytes = n * (2 if mode in ('kanji', 'hanzi') else 1)
    segs = [(mode, nbytes, hdr)]
    req = _requested_version(kw)
    if req is None:
        exp = ref_version(segs, lvl, micro, eci)
    else:
        use = admissible(req, lvl, micro, eci)
        c = cost(req, segs)
        exp = req if (use is not False and c is not None and c <= R.data_capacity_bits(req, use)) else None
    def expectation(segs_):
        if req is None:
            return ref_version(segs_, lvl, micro, eci)
        use_ = admissible(req, lvl, micro, eci)
        c_ = cost(req, segs_)
        return req if (use_ is not False and c_ is not None and c_ <= R.data_capacity_bits(req, use_)) else None
    labels = [case['kind'], 'mode-' + mode, 'expect-overflow' if exp is None else version_class(exp)]
    if alias:
        labels.append('latin1-alias')
    devs = []
    try:
        qr = call(segno.make, content, **kw)
    except Refused as ex:
        if alias and expectation([(mode, nbytes, True)]) is None:
            exp = None
        if exp is not None:
            devs.append(Dev('C04/fitting-content-refused', '%s x %d with %s should give version %s: %s' % (mode, n, kw, exp, ex)))
        elif not isinstance(ex.exc, segno.DataOverflowError) and \
                any(admissible(v, lvl, micro, eci) is not False for v in ORDER):
            # (with no admissible version at all - level H with micro=True - the combination is one
            # of the documented exclusions; any ValueError is right, C14 checks those)
            devs.append(Dev('C04/overflow-not-DataOverflowError', '%r' % (ex.exc,)))
        return Outcome(devs, labels + ['refused'], True, True)
    except Crash as ex:
        return Outcome([Dev('C04/crash-' + ex.key, str(ex))], labels, True)
    got = qr.version
    if alias:
        d0, _ = decode_symbol('C04', qr)
        if d0 is not None:
            exp = expectation([(mode, nbytes, any(s_['eci'] is not None for s_ in d0['segments']))])
    if exp is None:
        devs.append(Dev('C04/overflow-accepted', '%s x %d with %s does not fit anything admissible, got version %s' % (mode, n, kw, got)))
    elif got != exp:
        devs.append(Dev('C04/not-minimal' if req is None else 'C04/requested-version-not-returned',
                        '%s x %d with %s: expected version %s, got %s' % (mode, n, kw, exp, got)))
    d, ddevs = decode_symbol('C04', qr)
    devs += ddevs
    if d is not None:
        parts = expected_parts(content, kw.get('mode'), kw.get('encoding'))
        devs += payload_and_eci_devs('C04', d, parts, eci)
        if d['version'] != got:
            devs.append(Dev('C04/meta-version', 'reports %s, matrix is %s' % (got, d['version'])))
    return Outcome(devs, labels, True)


def check_free(case):
    content = dec_content(case['content'])
    kw = dict(case['kw'])
    lvl = kw.get('error')
    lvl = lvl.upper() if isinstance(lvl, str) else lvl
    micro = kw.get('micro')
    fn = case['fn']
    if fn == 'make_qr':
        micro = False
    elif fn == 'make_micro':
        micro = True
    eci = bool(kw.get('eci'))
    req = _requested_version(kw)
    try:
        qr = call(getattr(segno, fn), content, **kw)
    except Refused as ex:
        # decide from the expected parts whether refusing was right (only when the answer is certain)
        devs = []
        labels = ['refused']
        try:
            parts = expected_parts(content, kw.get('mode'), kw.get('encoding'))
        except (UnicodeError, LookupError):
            return Outcome((), labels, False, True)
        segs = []
        for b, enc, m in parts:
            mode = m or auto_mode(b)
            if mode == 'INVALID' or not representable(mode, b) and len(b):
                return Outcome((), labels, False, True)
            # whether an ECI header is written cannot be observed on a refusal; assume one for every
            # byte part when eci is requested (upper bound, so a refusal is only questioned when the
            # content fits even then)
            hdr = bool(eci and mode == 'byte')
            segs.append((mode, len(b), hdr))
        if not segs or (fn == 'make_micro' and (eci or lvl == 'H')) or (micro is True and eci):
            return Outcome((), labels, False, True)
        if isinstance(ex.exc, segno.DataOverflowError):
            labels.append('overflow')
            # unmerged segmentation is an upper bound of what segno needs; if even that fits, the
            # refusal is wrong
            if req is None:
                v = ref_version(segs, lvl, micro, eci)
            else:
                use = admissible(req, lvl, micro, eci)
                c = cost(req, segs)
                v = req if (use is not False and c is not None and c <= R.data_capacity_bits(req, use)) else None
            if v is not None and all(len(b) for b, _e, _m in parts):
                devs.append(Dev('C04/fitting-content-refused', 'fits version %s with one segment per part: %s' % (v, ex)))
        return Outcome(devs, labels, bool(devs) or 'overflow' in labels, True)
    except Crash as ex:
        return Outcome([Dev('C04/crash-' + ex.key, str(ex))], ('crash',), True)
    d, devs = decode_symbol('C04', qr)
    if d is None:
        return Outcome(devs, ('undecodable',), True)
    try:
        parts = expected_parts(content, kw.get('mode'), kw.get('encoding'))
        devs += payload_and_eci_devs('C04', d, parts, eci)
    except (UnicodeError, LookupError):
        pass
    v = d['version']
    labels = [version_class(v), 'segments-%d' % min(len(d['segments']), 4)]
    segs = [(s['mode'], len(s['data']), s['eci'] is not None) for s in d['segments']]
    if req is not None:
        if v != req:
            devs.append(Dev('C04/requested-version-not-returned', 'requested %s, got %s' % (req, v)))
    else:
        exp = ref_version(segs, lvl, micro, eci)
        if exp != v:
            devs.append(Dev('C04/not-minimal', 'decoded segment structure %s fits version %s, segno chose %s' % (segs, exp, v)))
    return Outcome(devs, labels, len(segs) > 1 or bool(kw))


def gens_codec(enc):
    import codecs
    return codecs.lookup(enc).name


def check_case(case):
    if case.get('kind') in ('boundary', 'request', 'eci'):
        return check_enumerated(case)
    return check_free(case)


@st.composite
def near_boundary_multi(draw):
    """Two or three parts of different modes whose total is steered towards a capacity boundary."""
    v = draw(gens.version_strategy([w for w in ORDER if w not in ('M1',)], 0.05))
    lvl = draw(st.sampled_from([x for x in R.levels_of(v) if x]))
    modes = [m for m in ('numeric', 'alphanumeric', 'byte', 'kanji') if R.cci_bits(v, m) is not None]
    k = draw(st.integers(2, 3))
    chosen = [draw(st.sampled_from(modes)) for _ in range(k)]
    # make adjacent modes differ so that the parts stay separate segments
    for i in range(1, k):
        if chosen[i] == chosen[i - 1]:
            chosen[i] = modes[(modes.index(chosen[i]) + 1) % len(modes)]
    if len(modes) == 1:
        chosen = modes
    cap = R.data_capacity_bits(v, lvl)
    parts, used = [], 0
    for i, m in enumerate(chosen):
        last = i == len(chosen) - 1
        room = cap - used - sum((segment_bits(v, mm, 2 if mm in ('kanji', 'hanzi') else 1) or 0) for mm in chosen[i + 1:])
        step = 2 if m in ('kanji', 'hanzi') else 1
        mx = 0
        while True:
            b = segment_bits(v, m, (mx + 1) * step)
            if b is None or b > room:
                break
            mx += 1
            if mx > 3000:
                break
        if mx < 1:
            mx = 1
        n = mx + draw(st.integers(-1, 1)) if last else draw(st.integers(1, max(1, mx // 2)))
        n = max(1, n)
        parts.append(pure_content(m, n))
        used += segment_bits(v, m, n * step) or 0
    kw = {'error': lvl, 'boost_error': False, 'mask': draw(st.integers(0, R.n_masks(v) - 1))}
    if draw(st.booleans()):
        kw['micro'] = None if R.is_micro(v) else draw(st.sampled_from([None, False]))
    if R.is_micro(v):
        kw['mask'] = draw(st.integers(0, 3))
    if draw(st.integers(0, 3)) == 0:
        kw['version'] = v
    return {'fn': 'make', 'content': enc_content(parts), 'kw': kw}


def required_labels(tier):
    return ['boundary', 'request', 'eci', 'expect-overflow', 'mode-hanzi', 'mode-kanji', 'segments-2', 'overflow']


def _fuzz(tier):
    """Coverage-guided phase (atheris), thorough tier (or VERIF_FUZZ_RUNS=<n> in any tier)."""
    import os
    runs = int(os.environ.get('VERIF_FUZZ_RUNS', '0' if tier == 'quick' else '320000'))
    if not runs:
        return []
    from .. import fuzz
    return [fuzz.fuzz_phase(__name__, runs)]


def phases(tier, seed):
    n = 3200 if tier == 'quick' else 300000
    return [
        Enum('boundaries', boundary_cases, exhaustive=True,
             note='both sides of every capacity boundary: 5 modes x 5 levels x 3 micro settings x admissible versions'),
        Enum('version-requests', version_request_cases, exhaustive=True,
             note='exact / previous / larger requested version at every (mode, level, version) capacity'),
        Enum('eci', eci_cases, exhaustive=True, note='eci=True byte content at every QR capacity boundary, with and without header'),
        Search('multi', st.one_of(near_boundary_multi(), near_boundary_multi(), gens.many_segments_case(), gens.crossing_segments_case(), gens.make_cases(big=0.05)), n),
    ] + _fuzz(tier)
