"""C09 - raster and text outputs depict exactly the symbol with its quiet zone."""
import io

import segno
from hypothesis import strategies as st

from .. import qrref as R
from .. import colors, raster
from ..common import call, Refused, Crash, dec_content, enc_content
from ..runner import HarnessError, Dev, Outcome, Enum, Search

PROPERTY = 'C09'
LEVEL = 'exploration'
RULE = ('Hypothesis cases: symbol (44 sizes, 80% <= 45 modules) x kind in {png, pbm P4, pbm P1, pam, ppm, xbm, xpm, txt, '
        'ans, compact terminal} x scale in {1..10, 1.5, 2.9, 3.0, 0.5, 0, -1} x border in {None, 0..10} x colours '
        '(17+10 names in any case, #RGB, #RRGGBB, #RGBA, #RRGGBBAA, int tuples, RGBA int tuples; None where '
        'documented; alpha only for PNG) x format options (dpi, compresslevel 0-9, plain, name). Oracle: the bytes are '
        'parsed by independent readers (signature, chunk order and CRCs, IHDR vs. data, filters, PLTE/tRNS; Netpbm '
        'headers and raster length; XBM/XPM structure) and every pixel is compared with module (y div s - b, x div s - b). '
        'scale < 1 must be refused. Non-trivial: output produced and (scale > 1 or border given or non-default colours); '
        'distinct by sha1(case).')
ASSUMPTIONS = ['vlib/raster.py readers (self-tested on hand-written files)', 'vlib/colors.py colour model (CSS keywords typed in)']

KINDS = ('png', 'png', 'png', 'pbm', 'pbm1', 'pam', 'pam', 'ppm', 'xbm', 'xpm', 'txt', 'ans', 'compact')


def make_symbol(sym):
    return call(segno.make, dec_content(sym['content']), **sym['kw'])


def expected_grid(matrix, scale, border):
    n = len(matrix)
    size = (n + 2 * border) * scale
    light_row = [0] * size
    g = []
    for y in range(size):
        r = y // scale - border
        if not 0 <= r < n:
            g.append(light_row)
            continue
        row = matrix[r]
        g.append([row[x // scale - border] if 0 <= x // scale - border < n else 0 for x in range(size)])
    return g


def compare_pixels(prop, kind, px, grid, dark, light, conv=lambda p: p):
    """px[y][x] vs. expected colour; dark/light are RGBA tuples or None (transparent)."""
    bad = 0
    first = None
    for y, (prow, grow) in enumerate(zip(px, grid)):
        for x, (p, gbit) in enumerate(zip(prow, grow)):
            e = dark if gbit else light
            p = conv(p)
            ok = (p[3] == 0) if e is None else (tuple(p) == tuple(e))
            if not ok:
                bad += 1
                if first is None:
                    first = (x, y, p, e)
    if bad:
        return [Dev('%s/pixels-%s' % (prop, kind), '%d wrong pixels, first at (x=%d, y=%d): got %s expected %s'
                    % ((bad,) + first))]
    return []


def check_case(case):
    try:
        qr = make_symbol(case['sym'])
    except (Refused, Crash) as ex:
        raise AssertionError('symbol for the writer check could not be created: %s' % ex)
    kind = case['kind']
    opts = dict(case['opts'])
    scale = opts.get('scale', 1)
    border = opts.get('border')
    n = len(qr.matrix)
    b = border if border is not None else (2 if n < 21 else 4)
    labels = ['kind-' + kind, 'size-%s' % ('micro' if n < 21 else ('small' if n <= 45 else 'large'))]
    kw = {k: v for k, v in opts.items() if k not in ('dark', 'light')}
    dark_spec, light_spec = opts.get('dark', 'DEFAULT'), opts.get('light', 'DEFAULT')
    if dark_spec != 'DEFAULT':
        kw['dark'] = colors.to_arg(dark_spec)
    if light_spec != 'DEFAULT':
        kw['light'] = colors.to_arg(light_spec)
    has_scale = kind not in ('txt', 'ans', 'compact')
    must_refuse = has_scale and scale < 1
    try:
        if kind in ('png', 'pbm', 'pbm1', 'pam', 'ppm'):
            buf = io.BytesIO()
            if kind == 'pbm1':
                kw['plain'] = True
            call(qr.save, buf, kind='pbm' if kind == 'pbm1' else kind, **kw)
            data = buf.getvalue()
        elif kind == 'compact':
            buf = io.StringIO()
            call(qr.terminal, buf, border=border, compact=True)
            data = buf.getvalue()
        elif kind == 'ans' and case.get('route') == 'terminal':
            buf = io.StringIO()
            call(qr.terminal, buf, border=border)
            data = buf.getvalue()
        else:
            buf = io.StringIO()
            call(qr.save, buf, kind=kind, **kw)
            data = buf.getvalue()
    except Refused as ex:
        if must_refuse:
            return Outcome((), labels + ['refused-scale'], True, True)
        return Outcome([Dev('C09/valid-options-refused-' + kind, '%s refused: %s' % (opts, ex))], labels, True, True)
    except Crash as ex:
        return Outcome([Dev('C09/crash-%s-%s' % (kind, ex.key), str(ex))], labels + ['crash'], True)
    if must_refuse:
        return Outcome([Dev('C09/scale-below-1-accepted-' + kind, 'scale=%r was accepted' % (scale,))], labels, True)
    s = int(scale) if has_scale else 1
    grid = expected_grid(qr.matrix, s, b)
    size = len(grid)
    devs = []
    dflt_dark, dflt_light = (0, 0, 0, 255), (255, 255, 255, 255)
    dark = light = None
    if kind != 'txt':  # (the TXT "colours" are the characters to print)
        dark = dflt_dark if dark_spec == 'DEFAULT' else colors.rgba_of(dark_spec)
        light = dflt_light if light_spec == 'DEFAULT' else colors.rgba_of(light_spec)
    try:
        if kind == 'png':
            w, h, px, info = raster.read_png(data)
            labels.append('png-ctype%d-depth%d' % (info['ctype'], info['depth']))
            if (w, h) != (size, size):
                devs.append(Dev('C09/dimensions-png', 'IHDR says %dx%d, expected %d' % (w, h, size)))
            else:
                devs += compare_pixels('C09', kind, px, grid, dark, light)
            if opts.get('dpi'):
                exp = int(int(opts['dpi']) // 0.0254)
                if info['phys'] != (exp, exp, 1):
                    devs.append(Dev('C09/png-phys', 'pHYs %r for dpi %r' % (info['phys'], opts['dpi'])))
            elif info['phys'] is not None:
                devs.append(Dev('C09/png-phys', 'pHYs chunk without dpi'))
        elif kind in ('pbm', 'pbm1'):
            w, h, rows = raster.read_pbm(data)
            if data[:2] != (b'P1' if kind == 'pbm1' else b'P4'):
                devs.append(Dev('C09/pbm-magic', repr(data[:2])))
            if (w, h) != (size, size) or rows != grid:
                devs.append(Dev('C09/pixels-' + kind, 'declared %dx%d, expected %d; raster %s' % (w, h, size, 'differs' if rows != grid else 'ok')))
        elif kind == 'pam':
            w, h, depth, maxval, tt, rows = raster.read_pam(data)
            labels.append('pam-' + tt)
            if (w, h) != (size, size):
                devs.append(Dev('C09/dimensions-pam', '%dx%d, expected %d' % (w, h, size)))
            else:
                devs += compare_pixels('C09', kind, rows, grid, dark, light, conv=lambda t: raster.pam_rgba(tt, maxval, t))
        elif kind == 'ppm':
            w, h, maxval, rows = raster.read_ppm(data)
            if (w, h) != (size, size):
                devs.append(Dev('C09/dimensions-ppm', '%dx%d, expected %d' % (w, h, size)))
            else:
                devs += compare_pixels('C09', kind, rows, grid, dark, light,
                                       conv=lambda t: tuple(v * 255 // maxval for v in t) + (255,))
        elif kind == 'xbm':
            name, w, h, rows = raster.read_xbm(data)
            if name != opts.get('name', 'img'):
                devs.append(Dev('C09/xbm-name', '%r' % name))
            if (w, h) != (size, size) or rows != grid:
                devs.append(Dev('C09/pixels-xbm', 'declared %dx%d, expected %d' % (w, h, size)))
        elif kind == 'xpm':
            name, w, h, rows = raster.read_xpm(data)
            if name != opts.get('name', 'img'):
                devs.append(Dev('C09/xpm-name', '%r' % name))

            def conv(c):
                if c == 'None':
                    return (0, 0, 0, 0)
                if len(c) != 7 or c[0] != '#':
                    raise raster.FormatError('XPM colour %r' % c)
                return tuple(int(c[i:i + 2], 16) for i in (1, 3, 5)) + (255,)
            if (w, h) != (size, size):
                devs.append(Dev('C09/dimensions-xpm', '%dx%d, expected %d' % (w, h, size)))
            else:
                devs += compare_pixels('C09', kind, rows, grid, dark, light, conv=conv)
        elif kind == 'txt':
            rows = raster.read_txt(data, dark=str(opts.get('dark', '1')), light=str(opts.get('light', '0')))
            if rows != grid:
                devs.append(Dev('C09/cells-txt', 'text grid differs (%d rows, expected %d)' % (len(rows), size)))
        elif kind == 'ans':
            if raster.read_ansi(data) != grid:
                devs.append(Dev('C09/cells-ans', 'ANSI grid differs'))
        else:
            rows = raster.read_compact(data)
            extra = rows[size:]
            if rows[:size] != grid or len(extra) != size % 2 or any(any(v != 1 for v in r) for r in extra):
                devs.append(Dev('C09/cells-compact', 'compact grid differs (%d half rows for %d rows)' % (len(rows), size)))
    except raster.Unsupported as ex:
        raise HarnessError('reader limitation (%s): %s' % (kind, ex))
    except raster.FormatError as ex:
        devs.append(Dev('C09/malformed-' + kind, str(ex)))
    nontrivial = s > 1 or border is not None or dark_spec != 'DEFAULT' or light_spec != 'DEFAULT'
    if has_scale and scale != s:
        labels.append('fractional-scale')
    return Outcome(devs, labels, nontrivial, counters={'pixels_compared': size * size})


@st.composite
def symbols(draw, max_big=0.2):
    k = draw(st.integers(0, 99))
    if k < 25:
        v = draw(st.sampled_from(R.MICRO))
    elif k < 80:
        v = draw(st.integers(1, 7))
    elif k < 95:
        v = draw(st.integers(8, 20))
    else:
        v = draw(st.integers(21, 40))
    n = draw(st.integers(1, 5))
    text = draw(st.text(alphabet='0123456789', min_size=n, max_size=n))
    kw = {'version': v, 'mask': draw(st.integers(0, R.n_masks(v) - 1))}
    return {'content': enc_content(text), 'kw': kw}, v


@st.composite
def raster_cases(draw):
    sym, v = draw(symbols())
    n = R.size_of(v)
    kind = draw(st.sampled_from(KINDS))
    opts = {}
    border = draw(st.sampled_from([None, None, 0, 1, 2, 3, 4, 5, 7, 10]))
    if n <= 25 and draw(st.integers(0, 7)) == 0:
        # quiet zone as wide as / wider than the symbol itself
        border = draw(st.sampled_from([n - 1, n, n + 1, 2 * n + 3]))
    if border is not None or draw(st.booleans()):
        opts['border'] = border
    if kind not in ('txt', 'ans', 'compact'):
        cap = max(1, 520 // (n + 2 * (border or 4)))
        sc = draw(st.sampled_from([1, 1, 2, 3, 4, 5, 7, 8, 10, 1.5, 2.9, 3.0, 4.7, 0.5, 0, -1, 0.99]))
        if sc > cap:
            sc = cap
        if sc != 1 or draw(st.booleans()):
            opts['scale'] = sc
    route = None
    if kind == 'png':
        d = draw(st.one_of(st.just('DEFAULT'), colors.with_alpha()))
        li = draw(st.one_of(st.just('DEFAULT'), colors.with_alpha()))
        if d is None and li is None:
            li = 'DEFAULT'
        if d != 'DEFAULT':
            opts['dark'] = d
        if li != 'DEFAULT':
            opts['light'] = li
        if draw(st.integers(0, 9)) < 3:
            opts['dpi'] = draw(st.sampled_from([72, 96, 150, 300, 600]))
        if draw(st.integers(0, 9)) < 3:
            opts['compresslevel'] = draw(st.integers(0, 9))
    elif kind == 'pam':
        d = draw(st.one_of(st.just('DEFAULT'), colors.opaque()))
        li = draw(st.one_of(st.just('DEFAULT'), colors.opaque(none_ok=True)))
        if li is None and draw(st.integers(0, 2)) == 0:
            # a translucent dark colour on a transparent background (RGB_ALPHA)
            d = draw(st.sampled_from(['#ff000080', [255, 0, 0, 128], [1, 2, 3, 4], '#0000ffcc', [10, 20, 30, 0.5]]))
        elif draw(st.integers(0, 3)) == 0:
            # colours with an alpha channel on either side, also black / white with alpha and an opaque counterpart
            d = draw(st.one_of(colors.with_alpha(none_ok=False), st.sampled_from(['#00000080', [0, 0, 0, 128], [255, 255, 255, 0.5], '#fff8'])))
            if draw(st.booleans()):
                li = draw(st.one_of(colors.with_alpha(none_ok=True), st.sampled_from(['#ffffff80', [0, 0, 0, 64]])))
        if d != 'DEFAULT':
            opts['dark'] = d
        if li != 'DEFAULT':
            opts['light'] = li
    elif kind == 'ppm':
        d = draw(st.one_of(st.just('DEFAULT'), colors.opaque()))
        li = draw(st.one_of(st.just('DEFAULT'), colors.opaque()))
        if d != 'DEFAULT':
            opts['dark'] = d
        if li != 'DEFAULT':
            opts['light'] = li
    elif kind == 'xpm':
        d = draw(st.one_of(st.just('DEFAULT'), colors.opaque(none_ok=True)))
        li = draw(st.one_of(st.just('DEFAULT'), colors.opaque(none_ok=True)))
        if d != 'DEFAULT':
            opts['dark'] = d
        if li != 'DEFAULT':
            opts['light'] = li
    if kind in ('xbm', 'xpm') and draw(st.integers(0, 3)) == 0:
        opts['name'] = draw(st.sampled_from(['qr', 'my_img', 'A1', '_x']))
    if kind == 'txt' and draw(st.integers(0, 2)) == 0:
        opts['dark'], opts['light'] = draw(st.sampled_from([('X', '_'), ('#', ' '), ('1', '0'), ('██', '  '), ('0', '1'), ('10', '01'), ('a0', 'b1'), ('1', ' ')]))
    if kind == 'ans' and draw(st.booleans()):
        route = 'terminal'
        opts.pop('scale', None)
    case = {'sym': sym, 'kind': kind, 'opts': opts}
    if route:
        case['route'] = route
    return case


def pam_colour_grid():
    """All combinations of black / white / colour / None for the PAM tuple types, and the PNG
    greyscale / palette / transparency paths."""
    cases = []
    sym = {'content': enc_content('12345'), 'kw': {'version': 1, 'mask': 2}}
    cols = ['black', 'white', '#000', '#ffffff', [0, 0, 0], [255, 255, 255], 'red', '#010203', [0, 0, 100], '#fffffe']
    for d in cols:
        for li in cols + [None]:
            for kind in ('pam', 'png', 'xpm', 'ppm'):
                if li is None and kind == 'ppm':
                    continue
                cases.append({'sym': sym, 'kind': kind, 'opts': {'dark': d, 'light': li, 'border': 1, 'scale': 2}})
    # every named colour against a transparent counterpart (the PNG writer has to find an unused
    # palette entry for "transparent")
    for name in sorted(colors.NAMED):
        for spec in (name, list(colors.NAMED[name]), '#%02x%02x%02x' % colors.NAMED[name]):
            cases.append({'sym': sym, 'kind': 'png', 'opts': {'dark': spec, 'light': None, 'border': 1}})
            cases.append({'sym': sym, 'kind': 'png', 'opts': {'dark': None, 'light': spec, 'border': 1}})
    for d in cols + [None]:
        for a in ('#ff000080', '#00000001', [0, 0, 0, 128], '#ffffff00', [1, 2, 3, 254]):
            cases.append({'sym': sym, 'kind': 'png', 'opts': {'dark': d, 'light': a, 'border': 0}})
            if d is not None:
                cases.append({'sym': sym, 'kind': 'png', 'opts': {'dark': a, 'light': d, 'border': 2}})
    return cases


def required_labels(tier):
    return ['kind-' + k for k in set(KINDS)] + ['fractional-scale', 'refused-scale', 'size-micro', 'size-large',
                                                  'pam-BLACKANDWHITE', 'pam-RGB', 'pam-GRAYSCALE_ALPHA', 'pam-RGB_ALPHA',
                                                  'png-ctype0-depth1', 'png-ctype3-depth1']


def phases(tier, seed):
    n = 6400 if tier == 'quick' else 200000
    return [
        Enum('colour-type-grid', pam_colour_grid, exhaustive=True,
             note='black / white / colour / transparent combinations which select the PAM tuple type and the PNG colour type'),
        Search('raster', raster_cases(), n),
    ]
