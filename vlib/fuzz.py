"""Coverage-guided fuzzing (atheris / libFuzzer) as an additional search phase of the thorough tier.

The fuzzer mutates raw bytes; ``decode_make_case`` turns them - as a pure function, without atheris -
into the same plain-data case ``{'fn', 'content', 'kw'}`` the Hypothesis strategies produce, and the
property's own ``check_case`` (the semantic oracle) runs inside the fuzz target.  The domain is the one
of ``gens.free_single`` / simple multi-part contents: every combination of options is admissible,
refusals with ValueError are part of the contract.  A finding is the decoded case (JSON), re-evaluated
in the checking process before it is reported, then reduced by ``shrink_make_case``.
"""
import os
import pickle
import shutil
import subprocess
import sys

from . import qrref as R
from . import gens
from .common import enc_content, dec_content
from . import runner
from .runner import HarnessError

FNS = ('make', 'make', 'make_qr', 'make_micro')
ERRORS = (None, 'L', 'M', 'Q', 'H', 'l', 'm', 'q', 'h')
VERSIONS = tuple(R.ALL_VERSIONS) + ('m1', 'm4', '2', 'M3')
MODES = (None,) + tuple(gens.MODES) + ('Byte', 'KANJI', 1, 2, 4, 8, 13)
MASKS = (0, 1, 2, 3, 4, 5, 6, 7, '0', '3')
ENCODINGS = (None,) + tuple(gens.ECI_ENCODINGS) + tuple(gens.OTHER_ENCODINGS)
HEADER = 10
MAX_LEN = 320


def _opt(b, pool):
    """Option present for half of the byte values (absent for 0, so that short inputs mean "no options")."""
    k = b % (2 * len(pool))
    return (True, pool[k - len(pool)]) if k >= len(pool) else (False, None)


def decode_make_case(data):
    data = bytes(data)
    if len(data) < HEADER:
        data = data + bytes(HEADER - len(data))
    h, payload = data[:HEADER], data[HEADER:HEADER + 300]
    fn = FNS[h[0] % len(FNS)]
    kind = h[1] % 8
    if kind == 0:
        content = payload.decode('latin-1')
    elif kind == 1:
        content = payload
    elif kind == 2:
        digits = ''.join(str(b % 10) for b in payload[:40]) or '0'
        content = int(digits) * (-1 if h[1] & 0x80 else 1)
    elif kind == 3:
        content = payload.decode('utf-8', 'ignore')
    elif kind == 4:
        content = payload.decode('shift_jis', 'ignore')
    elif kind == 5:
        content = payload.decode('gb2312', 'ignore')
    elif kind == 6:
        content = ''.join(R.ALNUM[b % 45] for b in payload)
    else:
        parts = [p for p in payload.split(b'\x00') if p][:5]
        content = [p.decode('latin-1') if i % 2 == 0 else p for i, p in enumerate(parts)]
        if len(content) < 2:
            content = payload.decode('latin-1')
    kw = {}
    for name, b, pool in (('error', h[2], ERRORS), ('version', h[3], VERSIONS), ('mode', h[4], MODES), ('mask', h[5], MASKS),
                          ('encoding', h[6], ENCODINGS), ('boost_error', h[7], (True, False))):
        has, val = _opt(b, pool)
        if has:
            kw[name] = val
    if fn != 'make_micro':
        has, val = _opt(h[8], (True, False))
        if has:
            kw['eci'] = val
    if fn == 'make':
        has, val = _opt(h[9], (None, True, False))
        if has:
            kw['micro'] = val
    if isinstance(content, list) and 'mode' in kw and not isinstance(kw['mode'], str):
        del kw['mode']
    return {'fn': fn, 'content': enc_content(content), 'kw': kw}


SEQ_ENCODINGS = (None, 'utf-8', 'shift_jis', 'utf-16-be', 'iso-8859-15', 'latin1', 'cp1252')
SEQ_MODES = (None, 'byte', 'numeric', 'alphanumeric', 'kanji', 'hanzi')


def decode_sequence_case(data):
    """make_sequence cases: content = payload repeated 1..40 times, so that lengths of many symbols are reachable
    from short inputs; version and / or symbol_count, level, mask, boost_error, encoding, mode."""
    data = bytes(data)
    if len(data) < HEADER:
        data = data + bytes(HEADER - len(data))
    h, payload = data[:HEADER], data[HEADER:HEADER + 120]
    kind = h[0] % 7
    rep = 1 + h[1] % 40
    if kind == 0:
        content = payload.decode('latin-1') * rep
    elif kind == 1:
        content = payload * rep
    elif kind == 2:
        digits = (''.join(str(b % 10) for b in payload) * rep)[:4000].lstrip('0') or '0'
        content = int(digits) if h[1] & 0x80 else digits
    elif kind == 3:
        content = payload.decode('utf-8', 'ignore') * rep
    elif kind == 4:
        content = payload.decode('shift_jis', 'ignore') * rep
    elif kind == 5:
        content = payload.decode('gb2312', 'ignore') * rep
    else:
        content = ''.join(R.ALNUM[b % 45] for b in payload) * rep
    kw = {}
    v = h[2] % 64
    if 1 <= v <= 40:
        kw['version'] = v
    c = h[3] % 32
    if c >= 16:
        kw['symbol_count'] = c - 15
    for name, b, pool in (('error', h[4], ('L', 'M', 'Q', 'H', 'l', 'q')), ('mask', h[5], (0, 1, 2, 3, 4, 5, 6, 7)), ('boost_error', h[6], (True, False)),
                          ('encoding', h[7], SEQ_ENCODINGS), ('mode', h[8], SEQ_MODES)):
        has, val = _opt(b, pool)
        if has and val is not None:
            kw[name] = val
    if isinstance(content, bytes):
        kw.pop('encoding', None)
    return {'fn': 'make_sequence', 'content': enc_content(content), 'kw': kw}


def seed_sequence_inputs():
    out = []
    for kind, payload in ((0, b'hello world'), (1, b'\x93\x5f\xe4\xaa'), (2, b'\x01\x02\x03\x04\x05'), (3, '\u00e4\u20ac\u70b9'.encode('utf-8')),
                          (4, '\u70b9\u8317'.encode('shift_jis')), (5, '\u4e66\u8bfb'.encode('gb2312')), (6, bytes(range(30)))):
        out.append(bytes([kind, 3, 1, 0, 0, 0, 0, 0, 0, 0]) + payload)
        out.append(bytes([kind, 9, 0, 19, 0, 0, 0, 0, 0, 0]) + payload)
    return out


DECODERS = {'make': (decode_make_case, None), 'sequence': (decode_sequence_case, None)}


def seed_inputs():
    """A few small valid inputs (one per content kind); half of the shards start from an empty corpus."""
    out = []
    for kind, payload in ((0, b'hello world'), (1, b'\x93\x5f\xe4\xaa'), (2, b'\x01\x02\x03\x04\x05'), (3, 'ä€点'.encode('utf-8')),
                          (4, '点茗'.encode('shift_jis')), (5, '书读'.encode('gb2312')), (6, bytes(range(30))), (7, b'ab\x0012\x00CD')):
        out.append(bytes([0, kind]) + bytes(8) + payload)
        out.append(bytes([2, kind, 12, 45, 0, 13, 0, 3, 2, 0]) + payload)
    return out


def shrink_make_case(mod, case, sig, budget=150):
    """Greedy reduction of a finding: drop options, shorten the content, while the signature persists."""
    def fails(c):
        nonlocal budget
        budget -= 1
        try:
            return any(d.sig == sig for d in runner.evaluate(mod, c).devs)
        except HarnessError:
            return False
    best = case
    changed = True
    while changed and budget > 0:
        changed = False
        for k in list(best['kw']):
            c = dict(best, kw={a: b for a, b in best['kw'].items() if a != k})
            if budget > 0 and fails(c):
                best, changed = c, True
        content = dec_content(best['content'])
        cands = []
        if isinstance(content, (str, bytes)) and len(content) > 1:
            n = len(content)
            cands = [content[:n // 2], content[n // 2:], content[:-1], content[1:]]
        elif isinstance(content, (list, tuple)) and len(content) > 1:
            cands = [list(content[:-1]), list(content[1:])] + [content[0]]
        elif isinstance(content, int) and abs(content) > 9:
            cands = [int(str(abs(content))[:len(str(abs(content))) // 2] or '0'), abs(content)]
        for cc in cands:
            c = dict(best, content=enc_content(cc))
            if budget > 0 and fails(c):
                best, changed = c, True
                break
    return best


def _die_with_parent():
    """The fuzz process must not outlive the worker that started it (watchdog kill): PR_SET_PDEATHSIG."""
    try:
        import ctypes
        import signal
        ctypes.CDLL('libc.so.6', use_errno=True).prctl(1, signal.SIGKILL)
    except Exception:  # noqa: BLE001
        pass


def fuzz_phase(modname, runs_total, name='coverage-guided', decoder='make'):
    """Custom phase: one atheris process per shard (fresh corpus directory; odd shards get the seed inputs).
    libFuzzer's -seed pins a campaign only approximately; the reproducible unit is the saved case."""
    def fn(shard, nshards, seed, stats):
        import importlib
        mod = importlib.import_module(modname)
        runs = max(50, runs_total // nshards)
        work = os.path.join(runner.OUT, '.work', 'fuzz', mod.PROPERTY, 's%d' % shard)
        shutil.rmtree(work, ignore_errors=True)
        corpus = os.path.join(work, 'corpus')
        os.makedirs(corpus)
        if shard % 2:
            for i, data in enumerate(seed_inputs() if decoder == 'make' else seed_sequence_inputs()):
                with open(os.path.join(corpus, 'seed%02d' % i), 'wb') as f:
                    f.write(data)
        result = os.path.join(work, 'result.pickle')
        log = os.path.join(work, 'log.txt')
        env = dict(os.environ)
        deps = os.path.join(runner.ROOT, '.deps')
        env['PYTHONPATH'] = os.pathsep.join([os.environ.get('VERIF_REPO', '/repo'), runner.ROOT, deps])
        cmd = [sys.executable, '-m', 'vlib.fuzz_target', modname + ':' + decoder, result, str(runs), '-seed=%d' % (seed * 1000 + shard + 1),
               '-max_len=%d' % MAX_LEN, '-len_control=0', '-use_value_profile=1', '-timeout=300', '-rss_limit_mb=4096', '-print_final_stats=1', corpus]
        try:
            with open(log, 'wb') as lf:
                proc = subprocess.run(cmd, stdout=lf, stderr=lf, env=env, cwd=runner.ROOT, timeout=6 * 3600, preexec_fn=_die_with_parent)
            tail = open(log, 'rb').read()[-1500:].decode('utf-8', 'replace')
            if b'atheris-unavailable' in open(log, 'rb').read()[:4000]:
                stats.labels['atheris-unavailable'] += 1
                return
            if not os.path.exists(result):
                raise HarnessError('fuzz target produced no result (exit %s):\n%s' % (proc.returncode, tail))
            with open(result, 'rb') as f:
                part = pickle.load(f)
            if part['evaluations'] < min(runs, 50):
                raise HarnessError('fuzz target stopped after %d executions (exit %s):\n%s' % (part['evaluations'], proc.returncode, tail))
            failures = part.pop('failures')
            part['failures'] = []
            part['phase_evals'] = {name: part['evaluations']}
            runner._merge(stats, part)
            stats.labels['fuzz-executions'] += part['evaluations']
            for sig, msg, case in failures:
                out = runner.evaluate(mod, case)
                hit = [d for d in out.devs if d.sig == sig]
                if not hit:
                    stats.harness_errors.append('finding of the fuzz target did not reproduce in the checking process: %s %s' % (sig, case))
                    continue
                small = shrink_make_case(mod, case, sig)
                msg2 = next((d.msg for d in runner.evaluate(mod, small).devs if d.sig == sig), hit[0].msg)
                stats.failures.append((sig, msg2, small))
        finally:
            shutil.rmtree(work, ignore_errors=True)
    return runner.Custom(name, fn)
