"""Independent readers for the vector formats (scratch).

Every reader returns a dict:
  page: (width, height) in output units
  scale: factor from module units to page units declared by the document itself
  segments: list of (colour, x1, y, x2, linewidth) in *module units*, y measured from the top
  background: colour or None;  bg_rect: (x, y, w, h) in module units covered by the background
"""
import re
import zlib
import xml.etree.ElementTree as ET
from fractions import Fraction as F


class FormatError(Exception):
    pass


class Unsupported(FormatError):
    """A construct which may be valid in the format but is outside the subset this reader interprets
    (a limitation of the reader: reported as harness problem, never as a violation)."""


_NUM = r'[-+]?(?:\d+\.?\d*|\.\d+)(?:[eE][-+]?\d+)?'


def num(s):
    try:
        return F(s)
    except (ValueError, ZeroDivisionError):
        raise FormatError('bad number %r' % (s,))


# ------------------------------------------------------------------ SVG
_PATH_TOK = re.compile(r'([MmhvzZ])|(%s)' % _NUM)


def parse_svg_path(d):
    """Returns (segments [(x1, y, x2)], closed_polygons [[(x, y), ...]]) in path units.
    Supports M m h v z (all segno emits); anything else raises."""
    toks = []
    pos = 0
    d = d.strip()
    while pos < len(d):
        if d[pos] in ' ,\t\r\n':
            pos += 1
            continue
        m = _PATH_TOK.match(d, pos)
        if not m:
            raise Unsupported('unsupported path data at %d: %r' % (pos, d[pos:pos + 10]))
        toks.append(m.group(0))
        pos = m.end()
    segs, polys = [], []
    x = y = F(0)
    sx = sy = F(0)
    cur = None
    i = 0
    cmd = None

    def take():
        nonlocal i
        if i >= len(toks) or toks[i] in 'MmhvzZ':
            raise FormatError('path argument missing')
        v = num(toks[i])
        i += 1
        return v
    while i < len(toks):
        if toks[i] in 'MmhvzZ':
            cmd = toks[i]
            i += 1
            fresh = True
        else:
            if cmd is None:
                raise FormatError('path does not start with a command')
            if cmd in 'MmzZ':
                raise Unsupported('implicit lineto / stray number is not expected')
            fresh = False
        if cmd in 'Mm':
            a, b = take(), take()
            if cmd == 'M':
                x, y = a, b
            else:
                x, y = x + a, y + b
            sx, sy = x, y
            cur = [(x, y)]
        elif cmd == 'h':
            a = take()
            if cur is None:
                raise FormatError('h before moveto')
            segs.append((x, y, x + a, len(polys)))
            x += a
            cur.append((x, y))
        elif cmd == 'v':
            a = take()
            if cur is None:
                raise FormatError('v before moveto')
            y += a
            cur.append((x, y))
            segs.append(None)
        elif cmd in 'zZ':
            if cur is None:
                raise FormatError('z before moveto')
            polys.append(cur)
            x, y = sx, sy
            cur = [(x, y)]
    return segs, polys


def _svg_color(el, attr):
    v = el.get(attr)
    if v is None:
        return None
    op = el.get(attr + '-opacity')
    return (v, op) if op is not None else v


def read_svg(data, encoding='utf-8'):
    try:
        root = ET.fromstring(data)
    except ET.ParseError as ex:
        raise FormatError('XML: %s' % ex)
    tag = root.tag
    ns = ''
    if tag.startswith('{'):
        ns, tag = tag[1:].split('}')
    if tag != 'svg':
        raise FormatError('root element is %r' % tag)
    res = dict(ns=ns, attrib=dict(root.attrib), title=None, desc=None)
    w, h, vb = root.get('width'), root.get('height'), root.get('viewBox')
    unit = ''
    if w is not None:
        m = re.fullmatch(r'(%s)(.*)' % _NUM, w)
        m2 = re.fullmatch(r'(%s)(.*)' % _NUM, h or '')
        if not m or not m2:
            raise FormatError('bad width/height')
        res['size'] = (num(m.group(1)), num(m2.group(1)))
        unit = m.group(2)
        if m2.group(2) != unit:
            raise FormatError('width/height units differ')
    res['unit'] = unit
    if vb is not None:
        parts = vb.split()
        if len(parts) != 4:
            raise FormatError('bad viewBox')
        res['viewbox'] = tuple(num(p) for p in parts)
    if 'size' not in res and 'viewbox' not in res:
        raise FormatError('neither size nor viewBox')
    if 'viewbox' in res:
        if res['viewbox'][:2] != (0, 0):
            raise FormatError('viewBox origin')
        page = res['viewbox'][2:]
    else:
        page = res['size']
    res['page'] = page
    q = (lambda t: '{%s}%s' % (ns, t)) if ns else (lambda t: t)
    segments = []
    backgrounds = []
    order = []

    def transform_of(el):
        t = el.get('transform')
        if t is None:
            return F(1)
        m = re.fullmatch(r'scale\((%s)\)' % _NUM, t)
        if not m:
            raise Unsupported('unsupported transform %r' % t)
        return num(m.group(1))

    def handle_path(el, scale):
        scale = scale * transform_of(el)
        d = el.get('d')
        if d is None:
            raise FormatError('path without d')
        segs, polys = parse_svg_path(d)
        stroke = _svg_color(el, 'stroke')
        fill = _svg_color(el, 'fill')
        if polys:
            if len(polys) != 1 or fill is None:
                raise FormatError('closed path without fill / several sub paths')
            pts = polys[0]
            xs = [p[0] for p in pts]
            ys = [p[1] for p in pts]
            rect = (min(xs), min(ys), max(xs) - min(xs), max(ys) - min(ys))
            # must be an axis parallel rectangle
            if len(set(pts)) != 4 or any(p[0] not in (min(xs), max(xs)) or p[1] not in (min(ys), max(ys)) for p in pts):
                raise FormatError('background is not a rectangle')
            backgrounds.append((fill, tuple(v for v in rect), scale, len(order)))
            order.append('bg')
            return
        if fill is not None:
            raise FormatError('open path with fill')
        for s in segs:
            if s is None:
                raise FormatError('vertical move in stroke path')
            x1, y, x2, _ = s
            segments.append((stroke, x1, y, x2, F(1), scale))
        order.append('path')
        res.setdefault('path_classes', []).append(el.get('class'))

    for el in root:
        t = el.tag.split('}')[-1]
        if t == 'title':
            res['title'] = el.text or ''
        elif t == 'desc':
            res['desc'] = el.text or ''
        elif t == 'path':
            handle_path(el, F(1))
        elif t == 'g':
            sc = transform_of(el)
            for sub in el:
                if sub.tag.split('}')[-1] != 'path':
                    raise Unsupported('unexpected element in group')
                handle_path(sub, sc)
        else:
            raise Unsupported('unexpected element %r' % t)
    res['segments'] = segments
    res['backgrounds'] = backgrounds
    res['order'] = order
    return res


# ------------------------------------------------------------------ EPS
def read_eps(text):
    lines = text.split('\n')
    if lines[0] != '%!PS-Adobe-3.0 EPSF-3.0':
        raise FormatError('EPS header')
    if any(len(ln) > 255 for ln in lines):
        raise FormatError('EPS line longer than 255 chars')
    if lines[-1] != '' or lines[-2] != '%%EOF':
        raise FormatError('EPS trailer')
    bbox = None
    body = []
    for ln in lines[1:-2]:
        if ln.startswith('%%BoundingBox:'):
            parts = ln.split(':', 1)[1].split()
            if len(parts) != 4:
                raise FormatError('BoundingBox')
            bbox = tuple(num(p) for p in parts)
        elif ln.startswith('%'):
            continue
        else:
            body.append(ln)
    if bbox is None or bbox[:2] != (0, 0):
        raise FormatError('BoundingBox missing / origin')
    toks = ' '.join(body).split()
    # tiny PostScript interpreter for the operators segno uses
    stack = []
    defs = {}
    scale = F(1)
    color = (F(0), F(0), F(0))
    bg = None
    segs = []
    cur = None
    i = 0
    stroked = False
    path = []

    def run(tok):
        nonlocal scale, color, bg, cur, stroked, path
        if re.fullmatch(_NUM, tok):
            stack.append(num(tok))
        elif tok == 'setrgbcolor':
            b = stack.pop(); g = stack.pop(); r = stack.pop()
            color = (r, g, b)
        elif tok == 'clippath':
            path = 'clip'
        elif tok == 'fill':
            if path != 'clip':
                raise FormatError('fill of non clip path')
            bg = color
            path = []
        elif tok == 'scale':
            sy = stack.pop(); sx = stack.pop()
            if sx != sy:
                raise Unsupported('anisotropic scale')
            scale *= sx
        elif tok == 'newpath':
            path = []
            cur = None
        elif tok == 'moveto':
            y = stack.pop(); x = stack.pop()
            cur = (x, y)
        elif tok == 'rmoveto':
            dy = stack.pop(); dx = stack.pop()
            if cur is None:
                raise FormatError('rmoveto without current point')
            cur = (cur[0] + dx, cur[1] + dy)
        elif tok == 'rlineto':
            dy = stack.pop(); dx = stack.pop()
            if cur is None:
                raise FormatError('rlineto without current point')
            if dy != 0:
                raise FormatError('non horizontal line')
            path.append((cur[0], cur[1], cur[0] + dx))
            cur = (cur[0] + dx, cur[1])
        elif tok == 'stroke':
            for (x1, y, x2) in path:
                segs.append((color, x1, y, x2, F(1)))
            path = []
            stroked = True
        elif tok in defs:
            for t in defs[tok]:
                run(t)
        else:
            raise Unsupported('unknown PS operator %r' % tok)
    while i < len(toks):
        tok = toks[i]
        if tok.startswith('/'):
            # /name { ... } bind def
            name = tok[1:]
            if toks[i + 1] != '{':
                raise FormatError('def syntax')
            j = toks.index('}', i)
            proc = toks[i + 2:j]
            if toks[j + 1:j + 3] != ['bind', 'def']:
                raise FormatError('def syntax')
            defs[name] = proc
            i = j + 3
            continue
        try:
            run(tok)
        except IndexError:
            raise FormatError('PS stack underflow at %r' % tok)
        i += 1
    if stack:
        raise FormatError('PS stack not empty')
    if not stroked:
        raise FormatError('no stroke')
    return dict(page=bbox[2:], scale=scale, segments_up=segs, background=bg)


# ------------------------------------------------------------------ PDF
def read_pdf(data):
    if not data.startswith(b'%PDF-1.'):
        raise FormatError('PDF header')
    if not data.rstrip(b'\r\n').endswith(b'%%EOF'):
        raise FormatError('PDF EOF marker')
    m = re.search(rb'startxref\r?\n(\d+)\r?\n%%EOF\s*\Z', data)
    if not m:
        raise FormatError('startxref')
    xpos = int(m.group(1))
    if data[xpos:xpos + 4] != b'xref':
        raise FormatError('startxref does not point to xref')
    m2 = re.match(rb'xref\r?\n(\d+) (\d+)\r?\n', data[xpos:])
    if not m2:
        raise FormatError('xref header')
    first, count = int(m2.group(1)), int(m2.group(2))
    p = xpos + m2.end()
    entries = []
    for k in range(count):
        ent = data[p:p + 20]
        mm = re.fullmatch(rb'(\d{10}) (\d{5}) ([nf])(?: \r| \n|\r\n)', ent)
        if not mm:
            raise FormatError('xref entry %d malformed: %r' % (k, ent))
        entries.append((int(mm.group(1)), int(mm.group(2)), mm.group(3)))
        p += 20
    tr = re.match(rb'trailer\s*<<(.*?)>>', data[p:], re.S)
    if not tr:
        raise FormatError('trailer')
    size = re.search(rb'/Size (\d+)', tr.group(1))
    rootref = re.search(rb'/Root (\d+) (\d+) R', tr.group(1))
    if not size or not rootref:
        raise FormatError('trailer keys')
    # objects actually defined in the file
    defined = {}
    for mo in re.finditer(rb'(?:(?<=[\r\n])|\A)(\d+) (\d+) obj\b', data):
        defined[int(mo.group(1))] = mo.start()
    xref_ok = {}
    for idx, (off, gen, kind) in enumerate(entries):
        objno = first + idx
        if kind == b'n' and objno in defined:
            xref_ok[objno] = (off == defined[objno])
    for objno in defined:
        if not (first <= objno < first + count) or entries[objno - first][2] != b'n':
            xref_ok[objno] = False

    def obj(no):
        if no not in defined:
            raise FormatError('object %d not defined' % no)
        start = defined[no]
        end = data.find(b'endobj', start)
        if end < 0:
            raise FormatError('object %d not terminated' % no)
        return data[start:end]
    root = obj(int(rootref.group(1)))
    pages = re.search(rb'/Pages (\d+) \d+ R', root)
    if b'/Type /Catalog' not in root or not pages:
        raise FormatError('catalog')
    pagesobj = obj(int(pages.group(1)))
    kids = re.search(rb'/Kids \[(\d+) \d+ R\]', pagesobj)
    if not kids or b'/Count 1' not in pagesobj:
        raise FormatError('pages')
    page = obj(int(kids.group(1)))
    mb = re.search(rb'/MediaBox \[([^\]]*)\]', page)
    cont = re.search(rb'/Contents (\d+) \d+ R', page)
    if not mb or not cont:
        raise FormatError('page')
    box = tuple(num(t.decode()) for t in mb.group(1).split())
    if len(box) != 4 or box[:2] != (0, 0):
        raise FormatError('MediaBox')
    cobj = obj(int(cont.group(1)))
    ln = re.search(rb'/Length (\d+)', cobj)
    st = re.search(rb'stream\r?\n', cobj)
    if not ln or not st:
        raise FormatError('content stream')
    length = int(ln.group(1))
    sstart = defined[int(cont.group(1))] + st.end()
    raw = data[sstart:sstart + length]
    after = data[sstart + length:sstart + length + 20]
    length_ok = bool(re.match(rb'\r?\n?endstream', after))
    if b'/FlateDecode' in cobj:
        try:
            dec = zlib.decompressobj()
            stream = dec.decompress(raw)
        except zlib.error as ex:
            raise FormatError('stream: %s (declared /Length %d)' % (ex, length))
        if dec.unused_data or not dec.eof:
            # /Length must cover exactly the compressed data
            length_ok = False
    else:
        stream = raw
    toks = stream.decode('ascii').split()
    stack = []
    ctm = (F(1), F(0), F(0), F(1), F(0), F(0))  # a b c d e f
    stroke = (F(0), F(0), F(0))
    fillc = (F(0), F(0), F(0))
    bg = None
    bg_rect = None
    rect = None
    cur = None
    path = []
    segs = []
    gstack = []

    def apply(pt):
        a, b, c, d, e, f = ctm
        return (a * pt[0] + c * pt[1] + e, b * pt[0] + d * pt[1] + f)
    for tok in toks:
        if re.fullmatch(_NUM, tok):
            stack.append(num(tok))
            continue
        try:
            if tok == 'cm':
                f_ = stack.pop(); e_ = stack.pop(); d_ = stack.pop(); c_ = stack.pop(); b_ = stack.pop(); a_ = stack.pop()
                a, b, c, d, e, f = ctm
                # new = M x CTM  (PDF: M is applied first)
                ctm = (a_ * a + b_ * c, a_ * b + b_ * d, c_ * a + d_ * c, c_ * b + d_ * d,
                       e_ * a + f_ * c + e, e_ * b + f_ * d + f)
            elif tok == 'rg':
                b = stack.pop(); g = stack.pop(); r = stack.pop(); fillc = (r, g, b)
            elif tok == 'RG':
                b = stack.pop(); g = stack.pop(); r = stack.pop(); stroke = (r, g, b)
            elif tok == 're':
                h = stack.pop(); w = stack.pop(); y = stack.pop(); x = stack.pop()
                p0 = apply((x, y)); p1 = apply((x + w, y + h))
                rect = (p0[0], p0[1], p1[0] - p0[0], p1[1] - p0[1])
            elif tok == 'f':
                if rect is None:
                    raise FormatError('f without path')
                bg = fillc; bg_rect = rect; rect = None
            elif tok == 'q':
                gstack.append((ctm, stroke, fillc))
            elif tok == 'Q':
                ctm, stroke, fillc = gstack.pop()
            elif tok == 'm':
                y = stack.pop(); x = stack.pop(); cur = (x, y)
            elif tok == 'l':
                y = stack.pop(); x = stack.pop()
                if cur is None:
                    raise FormatError('l without current point')
                p0 = apply(cur); p1 = apply((x, y))
                if p0[1] != p1[1]:
                    raise FormatError('non horizontal line')
                if ctm[1] != 0 or ctm[2] != 0 or ctm[0] != ctm[3]:
                    raise Unsupported('unexpected CTM')
                path.append((p0[0], p0[1], p1[0], ctm[0]))
                cur = (x, y)
            elif tok == 'S':
                for (x1, y, x2, lw) in path:
                    segs.append((stroke, x1, y, x2, lw))
                path = []
            else:
                raise Unsupported('unknown PDF operator %r' % tok)
        except IndexError:
            raise FormatError('PDF operand stack underflow at %r' % tok)
    if stack or path:
        raise FormatError('dangling operands / unpainted path')
    return dict(page=box[2:], segments_page=segs, background=bg, bg_rect=bg_rect,
                xref_ok=xref_ok, length_ok=length_ok, defined=sorted(defined))


# ------------------------------------------------------------------ TeX
def read_tex(text):
    lines = text.split('\n')
    res = dict(url=None, color=None)
    body = [ln for ln in lines if not ln.startswith('%')]
    joined = '\n'.join(body)
    m = re.fullmatch(r'(?:\\href\{(?P<url>[^}]*)\}\{)?\\begin\{pgfpicture\}\n'
                     r'  \\pgfsetlinewidth\{(?P<lw>%s)(?P<unit>[a-z]*)\}\n'
                     r'(?:  \\color\{(?P<color>[^}]*)\}\n)?'
                     r'(?P<path>(?:  \\pgfpath(?:moveto|lineto)\{\\pgfqpoint\{[^}]*\}\{[^}]*\}\}\n)*)'
                     r'  \\pgfusepath\{stroke\}\n'
                     r'\\end\{pgfpicture\}(?P<close>\}?)\n' % _NUM, joined)
    if not m:
        raise FormatError('TeX structure')
    if (m.group('url') is not None) != (m.group('close') == '}'):
        raise FormatError('TeX href braces')
    unit = m.group('unit')
    lw = num(m.group('lw'))
    segs = []
    cur = None
    for mm in re.finditer(r'\\pgfpath(moveto|lineto)\{\\pgfqpoint\{(%s)([a-z]*)\}\{(%s)([a-z]*)\}\}' % (_NUM, _NUM),
                          m.group('path')):
        if mm.group(3) != unit or mm.group(5) != unit:
            raise FormatError('TeX units differ')
        pt = (num(mm.group(2)), num(mm.group(4)))
        if mm.group(1) == 'moveto':
            cur = pt
        else:
            if cur is None or cur[1] != pt[1]:
                raise FormatError('TeX lineto')
            segs.append((cur[0], cur[1], pt[0]))
            cur = pt
    return dict(linewidth=lw, unit=unit, url=m.group('url'), color=m.group('color'), segments_down=segs)


# ------------------------------------------------------------------ rasterising segments
def snap(v, tol=F(1, 10 ** 6)):
    s = F(round(v * 2), 2)
    return s if abs(v - s) < tol else v


def grid_from_segments(segs, n_total):
    """segs: (x1, y_centre, x2, linewidth) in module units measured from the top left corner of
    the page.  Returns the coverage count per unit square; raises FormatError when a segment is not
    a horizontal, one module wide line on the module grid inside the page."""
    g = [[0] * n_total for _ in range(n_total)]
    for (x1, y, x2, lw) in segs:
        x1, y, x2, lw = snap(x1), snap(y), snap(x2), snap(lw)
        if lw != 1:
            raise FormatError('line width %s is not one module' % float(lw))
        if x1.denominator != 1 or x2.denominator != 1 or (y - F(1, 2)).denominator != 1:
            raise FormatError('segment off the module grid: x1=%s y=%s x2=%s' % (float(x1), float(y), float(x2)))
        if x2 <= x1:
            raise FormatError('empty or reversed segment')
        r = int(y - F(1, 2))
        for c in range(int(x1), int(x2)):
            if not (0 <= r < n_total and 0 <= c < n_total):
                raise FormatError('segment paints outside the page at row %d column %d' % (r, c))
            g[r][c] += 1
    return g


def selftest():
    svg = (b'<?xml version="1.0" encoding="utf-8"?>\n<svg xmlns="http://www.w3.org/2000/svg" width="6" height="6" class="s">'
           b'<title>a&lt;b</title><g transform="scale(2)"><path fill="#fff" d="M0 0h3v3h-3z"/>'
           b'<path class="q" stroke="#000" d="M1 1.5h1m-2 1h1"/></g></svg>\n')
    d = read_svg(svg)
    assert d['page'] == (6, 6) and d['title'] == 'a<b'
    assert d['backgrounds'][0][1] == (0, 0, 3, 3) and d['backgrounds'][0][2] == 2
    segs = [(x1, y, x2, lw) for (c, x1, y, x2, lw, sc) in d['segments']]
    assert grid_from_segments(segs, 3) == [[0, 0, 0], [0, 1, 0], [1, 0, 0]], grid_from_segments(segs, 3)
    for bad in (b'<svg width="1" height="1"><path stroke="#000" d="M0 0.5L1 1"/></svg>', b'<svg><path d="M0 0h1"/>'):
        try:
            read_svg(bad)
            raise AssertionError('bad SVG accepted')
        except FormatError:
            pass
    eps = ('%!PS-Adobe-3.0 EPSF-3.0\n%%BoundingBox: 0 0 6 6\n/m { rmoveto } bind def\n/l { rlineto } bind def\n'
           '1.000000 1.000000 0.000000 setrgbcolor clippath fill\n0 0 0 setrgbcolor\n2 2 scale\nnewpath\n'
           '1 1.5 moveto 1 0 l -2 -1 m 1 0 l\nstroke\n%%EOF\n')
    d = read_eps(eps)
    assert d['page'] == (6, 6) and d['scale'] == 2 and d['background'] == (1, 1, 0)
    segs = [(x1, 3 - y, x2, lw) for (c, x1, y, x2, lw) in d['segments_up']]
    assert grid_from_segments(segs, 3) == [[0, 0, 0], [0, 1, 0], [1, 0, 0]]
    tex = ('% Creator: x\n\\begin{pgfpicture}\n  \\pgfsetlinewidth{2pt}\n  \\color{red}\n'
           '  \\pgfpathmoveto{\\pgfqpoint{2pt}{-3.0pt}}\n  \\pgfpathlineto{\\pgfqpoint{4pt}{-3.0pt}}\n'
           '  \\pgfusepath{stroke}\n\\end{pgfpicture}\n')
    d = read_tex(tex)
    assert d['linewidth'] == 2 and d['color'] == 'red' and d['segments_down'] == [(2, -3, 4)]
    stream = b'1 0 0 rg 0 0 6 6 re f q 2 0 0 2 0 0 cm 1 0 0 1 0 2.5 cm 1 -1 m 2 -1 l S'
    import zlib as _z
    comp = _z.compress(stream)
    objs = [b'<</Type /Catalog /Pages 2 0 R>>', b'<</Type /Pages /Kids [3 0 R] /Count 1>>',
            b'<</Type /Page /Parent 2 0 R /MediaBox [0 0 6 6] /Contents 4 0 R>>']
    out = b'%PDF-1.4\r%\xe2\xe3\xcf\xd3\r\n'
    pos = []
    for i, o in enumerate(objs):
        pos.append(len(out))
        out += b'%d 0 obj ' % (i + 1) + o + b'\r\nendobj\r\n'
    pos.append(len(out))
    out += b'4 0 obj <</Length %d /Filter /FlateDecode>>\r\nstream\r\n' % len(comp) + comp + b'\r\nendstream\r\nendobj\r\n'
    xref = len(out)
    out += b'xref\r\n0 5\r\n0000000000 65535 f\r\n' + b''.join(b'%010d 00000 n\r\n' % p for p in pos)
    out += b'trailer <</Size 5/Root 1 0 R>>\r\nstartxref\r\n%d\r\n%%%%EOF\r\n' % xref
    d = read_pdf(out)
    assert d['page'] == (6, 6) and d['length_ok'] and all(d['xref_ok'].values()) and d['background'] == (1, 0, 0)
    segs = [(x1 / 2, 3 - y / 2, x2 / 2, lw / 2) for (c, x1, y, x2, lw) in d['segments_page']]
    assert grid_from_segments(segs, 3) == [[0, 0, 0], [0, 1, 0], [0, 0, 0]], grid_from_segments(segs, 3)
    bad = out.replace(b'/Length %d' % len(comp), b'/Length %d' % (len(comp) + 1))
    try:
        r = read_pdf(bad)
        assert not r['length_ok'] or not all(r['xref_ok'].values())
    except FormatError:
        pass
