"""Independent ISO/IEC 18004 reference model (scratch version for design-time probes).

Nothing in here imports segno.  All tables are derived from first principles
(GF(256), BCH, Golay, alignment positions, codeword counts) or typed in from the
standard (EC codewords per block / number of blocks, Table 9).
"""
from functools import lru_cache

# ----------------------------------------------------------------------------
# GF(256), primitive polynomial x^8+x^4+x^3+x^2+1 (0x11d)
# ----------------------------------------------------------------------------
EXP = [0] * 512
LOG = [0] * 256
_x = 1
for _i in range(255):
    EXP[_i] = _x
    LOG[_x] = _i
    _x <<= 1
    if _x & 0x100:
        _x ^= 0x11d
for _i in range(255, 512):
    EXP[_i] = EXP[_i - 255]


def gmul(a, b):
    if a == 0 or b == 0:
        return 0
    return EXP[LOG[a] + LOG[b]]


def gdiv(a, b):
    if b == 0:
        raise ZeroDivisionError
    if a == 0:
        return 0
    return EXP[(LOG[a] - LOG[b]) % 255]


def ginv(a):
    return EXP[255 - LOG[a]]


def poly_eval(p, x):
    """p[0] is the highest-order coefficient."""
    y = 0
    for c in p:
        y = gmul(y, x) ^ c
    return y


@lru_cache(None)
def rs_generator(n):
    g = [1]
    for i in range(n):
        # multiply by (x - alpha^i)
        a = EXP[i]
        ng = [0] * (len(g) + 1)
        for j, c in enumerate(g):
            ng[j] ^= c
            ng[j + 1] ^= gmul(c, a)
        g = ng
    return tuple(g)


def rs_encode(data, n_ec):
    g = rs_generator(n_ec)
    rem = [0] * n_ec
    for d in data:
        f = d ^ rem[0]
        rem = rem[1:] + [0]
        if f:
            for i in range(n_ec):
                rem[i] ^= gmul(g[i + 1], f)
    return rem


def rs_syndromes(cw, n_ec):
    return [poly_eval(cw, EXP[i]) for i in range(n_ec)]


def rs_correct(cw, n_ec):
    """Berlekamp-Massey / Chien / Forney.  Returns corrected list or None."""
    cw = list(cw)
    n = len(cw)
    synd = rs_syndromes(cw, n_ec)
    if not any(synd):
        return cw
    # Berlekamp-Massey (polynomials lowest-order first)
    C = [1]
    B = [1]
    L = 0
    m = 1
    b = 1
    for k in range(n_ec):
        d = synd[k]
        for i in range(1, L + 1):
            if i < len(C):
                d ^= gmul(C[i], synd[k - i])
        if d == 0:
            m += 1
        else:
            T = list(C)
            coef = gdiv(d, b)
            need = len(B) + m
            if len(C) < need:
                C = C + [0] * (need - len(C))
            for i, bc in enumerate(B):
                C[i + m] ^= gmul(coef, bc)
            if 2 * L <= k:
                L = k + 1 - L
                B = T
                b = d
                m = 1
            else:
                m += 1
    while len(C) > 1 and C[-1] == 0:
        C.pop()
    nerr = len(C) - 1
    if nerr != L or nerr * 2 > n_ec:
        return None
    # Chien search: roots of C are X_j^-1, position p (from the right end) <-> alpha^p
    pos = []
    for p in range(n):
        xinv = EXP[(255 - p) % 255]
        v = 0
        for i, c in enumerate(C):
            v ^= gmul(c, EXP[(LOG[xinv] * i) % 255]) if c else 0
        if v == 0:
            pos.append(p)
    if len(pos) != nerr:
        return None
    # Forney: omega = S(x)*C(x) mod x^n_ec
    omega = [0] * n_ec
    for i in range(n_ec):
        v = 0
        for j in range(min(i, len(C) - 1) + 1):
            v ^= gmul(C[j], synd[i - j])
        omega[i] = v
    for p in pos:
        X = EXP[p % 255]
        Xinv = ginv(X)
        num = 0
        for i, c in enumerate(omega):
            if c:
                num ^= gmul(c, EXP[(LOG[Xinv] * i) % 255])
        den = 0
        for i in range(1, len(C), 2):
            if C[i]:
                den ^= gmul(C[i], EXP[(LOG[Xinv] * (i - 1)) % 255])
        if den == 0:
            return None
        # first consecutive root is alpha^0 -> magnitude = X^(1-0) * omega(Xinv)/C'(Xinv)
        mag = gmul(X, gdiv(num, den))
        cw[n - 1 - p] ^= mag
    if any(rs_syndromes(cw, n_ec)):
        return None
    return cw


# ----------------------------------------------------------------------------
# Versions.  QR: 1..40, Micro: 'M1'..'M4'
# ----------------------------------------------------------------------------
MICRO = ('M1', 'M2', 'M3', 'M4')
ALL_VERSIONS = MICRO + tuple(range(1, 41))


def is_micro(v):
    return v in MICRO


def size_of(v):
    return 9 + 2 * (MICRO.index(v) + 1) if is_micro(v) else 17 + 4 * v


def version_of_size(n):
    if n in (11, 13, 15, 17):
        return MICRO[(n - 11) // 2]
    if n >= 21 and (n - 17) % 4 == 0 and (n - 17) // 4 <= 40:
        return (n - 17) // 4
    raise ValueError('not a QR size: %r' % (n,))


def alignment_positions(v):
    """ISO Annex E, generated (not typed in)."""
    if is_micro(v) or v == 1:
        return ()
    n = v // 7 + 2
    step = 26 if v == 32 else (v * 4 + n * 2 + 1) // (n * 2 - 2) * 2
    size = size_of(v)
    res = [size - 7 - i * step for i in range(n - 1)]
    return tuple([6] + res[::-1])


# Table 9: EC codewords per block and number of blocks, QR versions 1..40
_ECPB = {
    'L': (7, 10, 15, 20, 26, 18, 20, 24, 30, 18, 20, 24, 26, 30, 22, 24, 28, 30, 28, 28,
          28, 28, 30, 30, 26, 28, 30, 30, 30, 30, 30, 30, 30, 30, 30, 30, 30, 30, 30, 30),
    'M': (10, 16, 26, 18, 24, 16, 18, 22, 22, 26, 30, 22, 22, 24, 24, 28, 28, 26, 26, 26,
          26, 28, 28, 28, 28, 28, 28, 28, 28, 28, 28, 28, 28, 28, 28, 28, 28, 28, 28, 28),
    'Q': (13, 22, 18, 26, 18, 24, 18, 22, 20, 24, 28, 26, 24, 20, 30, 24, 28, 28, 26, 30,
          28, 30, 30, 30, 30, 28, 30, 30, 30, 30, 30, 30, 30, 30, 30, 30, 30, 30, 30, 30),
    'H': (17, 28, 22, 16, 22, 28, 26, 26, 24, 28, 24, 28, 22, 24, 24, 30, 28, 28, 26, 28,
          30, 24, 30, 30, 30, 30, 30, 30, 30, 30, 30, 30, 30, 30, 30, 30, 30, 30, 30, 30),
}
_NBLK = {
    'L': (1, 1, 1, 1, 1, 2, 2, 2, 2, 4, 4, 4, 4, 4, 6, 6, 6, 6, 7, 8,
          8, 9, 9, 10, 12, 12, 12, 13, 14, 15, 16, 17, 18, 19, 19, 20, 21, 22, 24, 25),
    'M': (1, 1, 1, 2, 2, 4, 4, 4, 5, 5, 5, 8, 9, 9, 10, 10, 11, 13, 14, 16,
          17, 17, 18, 20, 21, 23, 25, 26, 28, 29, 31, 33, 35, 37, 38, 40, 43, 45, 47, 49),
    'Q': (1, 1, 2, 2, 4, 4, 6, 6, 8, 8, 8, 10, 12, 16, 12, 17, 16, 18, 21, 20,
          23, 23, 25, 27, 29, 34, 34, 35, 38, 40, 43, 45, 48, 51, 53, 56, 59, 62, 65, 68),
    'H': (1, 1, 2, 4, 4, 4, 5, 6, 8, 8, 11, 11, 16, 16, 18, 16, 19, 21, 25, 25,
          25, 34, 30, 32, 35, 37, 40, 42, 45, 48, 51, 54, 57, 60, 63, 66, 70, 74, 77, 81),
}
# Micro QR: (total codewords, data codewords, data bits)
_MICRO_EC = {
    ('M1', None): (5, 3, 20),
    ('M2', 'L'): (10, 5, 40), ('M2', 'M'): (10, 4, 32),
    ('M3', 'L'): (17, 11, 84), ('M3', 'M'): (17, 9, 68),
    ('M4', 'L'): (24, 16, 128), ('M4', 'M'): (24, 14, 112), ('M4', 'Q'): (24, 10, 80),
}
LEVELS = ('L', 'M', 'Q', 'H')


def levels_of(v):
    if v == 'M1':
        return (None,)
    if v in ('M2', 'M3'):
        return ('L', 'M')
    if v == 'M4':
        return ('L', 'M', 'Q')
    return LEVELS


def raw_data_modules(v):
    """Number of modules of the encoding region of QR version v (data+ec+remainder)."""
    res = (16 * v + 128) * v + 64
    if v >= 2:
        n = v // 7 + 2
        res -= (25 * n - 10) * n - 55
        if v >= 7:
            res -= 36
    return res


def block_layout(v, lvl):
    """Returns list of (total, data) per block in ISO order (short blocks first)."""
    if is_micro(v):
        t, d, _ = _MICRO_EC[(v, lvl)]
        return [(t, d)]
    total = raw_data_modules(v) // 8
    nb = _NBLK[lvl][v - 1]
    ec = _ECPB[lvl][v - 1]
    short = total // nb
    n_long = total % nb
    res = []
    for i in range(nb):
        t = short + (1 if i >= nb - n_long else 0)
        res.append((t, t - ec))
    return res


def data_capacity_bits(v, lvl):
    if is_micro(v):
        return _MICRO_EC[(v, lvl)][2]
    return 8 * sum(d for t, d in block_layout(v, lvl))


def remainder_bits(v):
    return 0 if is_micro(v) else raw_data_modules(v) % 8


# ----------------------------------------------------------------------------
# Format / version information
# ----------------------------------------------------------------------------
def bch15_5(data5):
    rem = data5 << 10
    for i in range(4, -1, -1):
        if rem & (1 << (i + 10)):
            rem ^= 0x537 << i
    return (data5 << 10) | rem


def golay18_6(v):
    rem = v << 12
    for i in range(5, -1, -1):
        if rem & (1 << (i + 12)):
            rem ^= 0x1f25 << i
    return (v << 12) | rem


_QR_LEVEL_BITS = {'L': 1, 'M': 0, 'Q': 3, 'H': 2}
_MICRO_SYMBOL_NUMBER = {('M1', None): 0, ('M2', 'L'): 1, ('M2', 'M'): 2, ('M3', 'L'): 3,
                        ('M3', 'M'): 4, ('M4', 'L'): 5, ('M4', 'M'): 6, ('M4', 'Q'): 7}


def format_word(v, lvl, mask):
    if is_micro(v):
        return bch15_5((_MICRO_SYMBOL_NUMBER[(v, lvl)] << 2) | mask) ^ 0x4445
    return bch15_5((_QR_LEVEL_BITS[lvl] << 3) | mask) ^ 0x5412


def format_positions(v):
    """Returns (copy1, copy2) lists of (row, col) for bit 0..14; copy2 is None for Micro."""
    n = size_of(v)
    if is_micro(v):
        c1 = [(i + 1, 8) for i in range(8)] + [(8, 7 - i) for i in range(7)]
        return c1, None
    c1 = [(i, 8) for i in range(6)] + [(7, 8), (8, 8), (8, 7)] + [(8, 14 - i) for i in range(9, 15)]
    c2 = [(8, n - 1 - i) for i in range(8)] + [(n - 15 + i, 8) for i in range(8, 15)]
    return c1, c2


def version_positions(v):
    n = size_of(v)
    c1 = []  # upper right block (rows 0..5, cols n-11..n-9)
    c2 = []  # lower left
    for i in range(18):
        a = n - 11 + i % 3
        b = i // 3
        c1.append((b, a))
        c2.append((a, b))
    return c1, c2


# ----------------------------------------------------------------------------
# Function pattern map
# ----------------------------------------------------------------------------
FINDER, SEPARATOR, TIMING, ALIGNMENT, FORMAT, VERSION, DARKMODULE, DATA = range(1, 9)
CLASS_NAMES = {FINDER: 'finder', SEPARATOR: 'separator', TIMING: 'timing', ALIGNMENT: 'alignment',
               FORMAT: 'format', VERSION: 'version', DARKMODULE: 'darkmodule', DATA: 'data'}


@lru_cache(None)
def function_map(v):
    """Returns (cls, val): cls[r][c] class constant; val[r][c] expected module value
    (0/1) for fixed patterns, None where the value depends on the symbol."""
    n = size_of(v)
    cls = [[DATA] * n for _ in range(n)]
    val = [[None] * n for _ in range(n)]
    micro = is_micro(v)

    def finder(r0, c0):
        for dr in range(-1, 8):
            for dc in range(-1, 8):
                r, c = r0 + dr, c0 + dc
                if not (0 <= r < n and 0 <= c < n):
                    continue
                if 0 <= dr < 7 and 0 <= dc < 7:
                    cls[r][c] = FINDER
                    ring = max(abs(dr - 3), abs(dc - 3))
                    val[r][c] = 0 if ring == 2 else 1
                else:
                    cls[r][c] = SEPARATOR
                    val[r][c] = 0
    # timing first (finder overrides its ends)
    if micro:
        for i in range(n):
            cls[0][i] = TIMING
            val[0][i] = 1 - i % 2
            cls[i][0] = TIMING
            val[i][0] = 1 - i % 2
    else:
        for i in range(n):
            cls[6][i] = TIMING
            val[6][i] = 1 - i % 2
            cls[i][6] = TIMING
            val[i][6] = 1 - i % 2
    finder(0, 0)
    if not micro:
        finder(0, n - 7)
        finder(n - 7, 0)
        pos = alignment_positions(v)
        for r0 in pos:
            for c0 in pos:
                if (r0, c0) in ((6, 6), (6, pos[-1]), (pos[-1], 6)):
                    continue
                for dr in range(-2, 3):
                    for dc in range(-2, 3):
                        cls[r0 + dr][c0 + dc] = ALIGNMENT
                        val[r0 + dr][c0 + dc] = 1 if max(abs(dr), abs(dc)) != 1 else 0
    c1, c2 = format_positions(v)
    for (r, c) in c1 + (c2 or []):
        cls[r][c] = FORMAT
        val[r][c] = None
    if not micro:
        cls[n - 8][8] = DARKMODULE
        val[n - 8][8] = 1
        if v >= 7:
            a, b = version_positions(v)
            for (r, c) in a + b:
                cls[r][c] = VERSION
                val[r][c] = None
    return tuple(tuple(r) for r in cls), tuple(tuple(r) for r in val)


def mask_fn(v, k):
    qr = (
        lambda i, j: (i + j) % 2 == 0,
        lambda i, j: i % 2 == 0,
        lambda i, j: j % 3 == 0,
        lambda i, j: (i + j) % 3 == 0,
        lambda i, j: (i // 2 + j // 3) % 2 == 0,
        lambda i, j: (i * j) % 2 + (i * j) % 3 == 0,
        lambda i, j: ((i * j) % 2 + (i * j) % 3) % 2 == 0,
        lambda i, j: ((i + j) % 2 + (i * j) % 3) % 2 == 0,
    )
    if is_micro(v):
        return (qr[1], qr[4], qr[6], qr[7])[k]
    return qr[k]


def n_masks(v):
    return 4 if is_micro(v) else 8


@lru_cache(None)
def data_positions(v):
    """Module coordinates of the encoding region in placement order (ISO 7.7.3)."""
    n = size_of(v)
    cls, _ = function_map(v)
    res = []
    col = n - 1
    up = True
    micro = is_micro(v)
    while col > 0:
        if not micro and col == 6:
            col -= 1
        rows = range(n - 1, -1, -1) if up else range(n)
        for r in rows:
            for c in (col, col - 1):
                if cls[r][c] == DATA:
                    res.append((r, c))
        up = not up
        col -= 2
    return tuple(res)


# ----------------------------------------------------------------------------
# Reading a symbol
# ----------------------------------------------------------------------------
class SymbolError(Exception):
    pass


def hamming(a, b):
    return bin(a ^ b).count('1')


def read_word(matrix, positions):
    w = 0
    for i, (r, c) in enumerate(positions):
        w |= (matrix[r][c] & 1) << i
    return w


def read_format(matrix, v):
    """Returns (level, mask, words) where words are the raw copies read."""
    c1, c2 = format_positions(v)
    words = [read_word(matrix, c1)]
    if c2:
        words.append(read_word(matrix, c2))
    cands = {}
    for lvl in ((None, 'L', 'M', 'Q') if is_micro(v) else LEVELS):
        for vv in (MICRO if is_micro(v) else (1,)):
            if is_micro(v) and lvl not in levels_of(vv):
                continue
            for m in range(n_masks(v)):
                cands[format_word(vv if is_micro(v) else v, lvl, m)] = (vv if is_micro(v) else v, lvl, m)
    res = []
    for w in words:
        best = min(cands, key=lambda cw: hamming(cw, w))
        res.append((hamming(best, w), cands[best]))
    return words, res


def read_version_info(matrix, v):
    a, b = version_positions(v)
    return read_word(matrix, a), read_word(matrix, b)


def unmasked_bits(matrix, v, mask):
    fn = mask_fn(v, mask)
    return [matrix[r][c] ^ (1 if fn(r, c) else 0) for (r, c) in data_positions(v)]


def split_codewords(bits, v, lvl):
    """bits: unmasked bit stream of the encoding region.
    Returns (blocks, remainder_bits) where blocks is list of (data_cw, ec_cw);
    for M1/M3 the final data codeword holds the 4-bit value in its high nibble
    (as in ISO: 4-bit codeword), flagged through half=True."""
    layout = block_layout(v, lvl)
    half = v in ('M1', 'M3')
    total_cw = sum(t for t, d in layout)
    nbits = total_cw * 8 - (4 if half else 0)
    if len(bits) < nbits:
        raise SymbolError('encoding region too small: %d < %d' % (len(bits), nbits))
    rem = bits[nbits:]
    cws = []
    pos = 0
    if half:
        t, d = layout[0]
        for i in range(t):
            w = 4 if i == d - 1 else 8
            val = 0
            for b in bits[pos:pos + w]:
                val = (val << 1) | b
            pos += w
            cws.append(val << (8 - w))
        return [(cws[:d], cws[d:])], rem
    for i in range(total_cw):
        val = 0
        for b in bits[pos:pos + 8]:
            val = (val << 1) | b
        pos += 8
        cws.append(val)
    nb = len(layout)
    data = [[] for _ in range(nb)]
    ec = [[] for _ in range(nb)]
    it = iter(cws)
    maxd = max(d for t, d in layout)
    for i in range(maxd):
        for bi, (t, d) in enumerate(layout):
            if i < d:
                data[bi].append(next(it))
    maxe = max(t - d for t, d in layout)
    for i in range(maxe):
        for bi, (t, d) in enumerate(layout):
            if i < t - d:
                ec[bi].append(next(it))
    return list(zip(data, ec)), rem


def join_codewords(blocks, v, lvl):
    """Inverse of split_codewords (without remainder bits): returns bit list."""
    half = v in ('M1', 'M3')
    bits = []

    def put(val, w=8):
        for i in range(w - 1, -1, -1):
            bits.append((val >> i) & 1)
    if half:
        d, e = blocks[0]
        for i, cw in enumerate(d):
            if i == len(d) - 1:
                put(cw >> 4, 4)
            else:
                put(cw)
        for cw in e:
            put(cw)
        return bits
    maxd = max(len(d) for d, e in blocks)
    for i in range(maxd):
        for d, e in blocks:
            if i < len(d):
                put(d[i])
    maxe = max(len(e) for d, e in blocks)
    for i in range(maxe):
        for d, e in blocks:
            if i < len(e):
                put(e[i])
    return bits


# ----------------------------------------------------------------------------
# Bit stream parsing (ISO 7.4)
# ----------------------------------------------------------------------------
ALNUM = '0123456789ABCDEFGHIJKLMNOPQRSTUVWXYZ $%*+-./:'
NUMERIC, ALPHANUMERIC, BYTE, KANJI, HANZI = 'numeric', 'alphanumeric', 'byte', 'kanji', 'hanzi'


def cci_bits(v, mode):
    if is_micro(v):
        k = MICRO.index(v)
        return {NUMERIC: (3, 4, 5, 6), ALPHANUMERIC: (None, 3, 4, 5),
                BYTE: (None, None, 4, 5), KANJI: (None, None, 3, 4), HANZI: (None,) * 4}[mode][k]
    r = 0 if v <= 9 else (1 if v <= 26 else 2)
    return {NUMERIC: (10, 12, 14), ALPHANUMERIC: (9, 11, 13), BYTE: (8, 16, 16),
            KANJI: (8, 10, 12), HANZI: (8, 10, 12)}[mode][r]


def mode_indicator_bits(v):
    return MICRO.index(v) if is_micro(v) else 4


def terminator_bits(v):
    return (3, 5, 7, 9)[MICRO.index(v)] if is_micro(v) else 4


class BitReader:
    def __init__(self, bits):
        self.bits = bits
        self.pos = 0

    def left(self):
        return len(self.bits) - self.pos

    def read(self, n):
        if n > self.left():
            raise SymbolError('bit stream exhausted (need %d, have %d)' % (n, self.left()))
        val = 0
        for b in self.bits[self.pos:self.pos + n]:
            val = (val << 1) | b
        self.pos += n
        return val


def parse_stream(bits, v):
    """Parses the data bit stream of a symbol of version v.

    Returns dict(segments=[...], sa=None|(index,total_minus_1,parity), end=position after the
    last segment (start of terminator), terminated_by='terminator'|'capacity').
    Each segment: dict(mode, count, data(bytes), eci(None|int), start, stop)
    """
    rd = BitReader(bits)
    micro = is_micro(v)
    mib = mode_indicator_bits(v)
    segs = []
    sa = None
    eci = None
    pending_eci = None
    while True:
        end = rd.pos
        if micro:
            # ISO 7.4.9: terminator may be omitted/abbreviated if capacity is exhausted
            if rd.left() == 0:
                return dict(segments=segs, sa=sa, end=end, terminated_by='capacity')
            tb = terminator_bits(v)
            look = bits[rd.pos:rd.pos + tb]
            if not any(look):
                if pending_eci is not None:
                    raise SymbolError('ECI header without following segment')
                return dict(segments=segs, sa=sa, end=end,
                            terminated_by='terminator' if len(look) == tb else 'capacity')
            if v == 'M1':
                mode = NUMERIC
            else:
                mi = rd.read(mib)
                try:
                    mode = (NUMERIC, ALPHANUMERIC, BYTE, KANJI)[mi]
                except IndexError:
                    raise SymbolError('bad micro mode indicator %d' % mi)
            if cci_bits(v, mode) is None:
                raise SymbolError('mode %s not available in %s' % (mode, v))
        else:
            if rd.left() < 4:
                if any(bits[rd.pos:]):
                    raise SymbolError('non-zero bits where an abbreviated terminator is expected')
                if pending_eci is not None:
                    raise SymbolError('ECI header without following segment')
                return dict(segments=segs, sa=sa, end=end, terminated_by='capacity')
            mi = rd.read(4)
            if mi == 0:
                if pending_eci is not None:
                    raise SymbolError('ECI header without following segment')
                return dict(segments=segs, sa=sa, end=end, terminated_by='terminator')
            if mi == 0b0011:
                if segs or sa is not None or pending_eci is not None:
                    raise SymbolError('structured append header not at the start')
                idx = rd.read(4)
                tot = rd.read(4)
                par = rd.read(8)
                sa = (idx, tot, par)
                continue
            if mi == 0b0111:
                b0 = rd.read(8)
                if b0 & 0x80 == 0:
                    val = b0
                elif b0 & 0xc0 == 0x80:
                    val = ((b0 & 0x3f) << 8) | rd.read(8)
                elif b0 & 0xe0 == 0xc0:
                    val = ((b0 & 0x1f) << 16) | rd.read(16)
                else:
                    raise SymbolError('bad ECI designator')
                pending_eci = val
                continue
            try:
                mode = {1: NUMERIC, 2: ALPHANUMERIC, 4: BYTE, 8: KANJI, 13: HANZI}[mi]
            except KeyError:
                raise SymbolError('unsupported mode indicator %d at bit %d' % (mi, end))
            if mode == HANZI:
                subset = rd.read(4)
                if subset != 1:
                    raise SymbolError('hanzi subset %d' % subset)
        start = end
        count = rd.read(cci_bits(v, mode))
        out = bytearray()
        if mode == NUMERIC:
            full, rest = divmod(count, 3)
            for _ in range(full):
                x = rd.read(10)
                if x > 999:
                    raise SymbolError('numeric group %d' % x)
                out += b'%03d' % x
            if rest == 2:
                x = rd.read(7)
                if x > 99:
                    raise SymbolError('numeric group %d' % x)
                out += b'%02d' % x
            elif rest == 1:
                x = rd.read(4)
                if x > 9:
                    raise SymbolError('numeric group %d' % x)
                out += b'%d' % x
        elif mode == ALPHANUMERIC:
            full, rest = divmod(count, 2)
            for _ in range(full):
                x = rd.read(11)
                if x >= 45 * 45:
                    raise SymbolError('alnum pair %d' % x)
                out += ALNUM[x // 45].encode() + ALNUM[x % 45].encode()
            if rest:
                x = rd.read(6)
                if x >= 45:
                    raise SymbolError('alnum single %d' % x)
                out += ALNUM[x].encode()
        elif mode == BYTE:
            for _ in range(count):
                out.append(rd.read(8))
        elif mode == KANJI:
            for _ in range(count):
                x = rd.read(13)
                hi, lo = divmod(x, 0xc0)
                y = (hi << 8) | lo
                y += 0x8140 if y + 0x8140 <= 0x9ffc else 0xc140
                out += bytes((y >> 8, y & 0xff))
        elif mode == HANZI:
            for _ in range(count):
                x = rd.read(13)
                hi, lo = divmod(x, 0x60)
                y = (hi << 8) | lo
                y += 0xa1a1 if y + 0xa1a1 <= 0xaafe else 0xa6a1
                out += bytes((y >> 8, y & 0xff))
        segs.append(dict(mode=mode, count=count, data=bytes(out), eci=pending_eci,
                         start=start, stop=rd.pos))
        pending_eci = None


# ----------------------------------------------------------------------------
# Whole-symbol decode
# ----------------------------------------------------------------------------
def check_structure(matrix, v):
    """Returns list of human readable deviations of the function patterns."""
    n = size_of(v)
    errs = []
    if len(matrix) != n or any(len(r) != n for r in matrix):
        return ['matrix is not %dx%d' % (n, n)]
    cls, val = function_map(v)
    for r in range(n):
        row = matrix[r]
        for c in range(n):
            m = row[c]
            if m not in (0, 1):
                errs.append('module (%d,%d) has value %r' % (r, c, m))
            elif val[r][c] is not None and m != val[r][c]:
                errs.append('%s module (%d,%d) is %d, expected %d' % (CLASS_NAMES[cls[r][c]], r, c, m, val[r][c]))
    return errs


def decode(matrix, correct=False):
    """Full reference decode.  Returns a dict with everything the checks need."""
    n = len(matrix)
    v = version_of_size(n)
    res = dict(version=v, size=n)
    if any(len(r) != n for r in matrix):
        raise SymbolError('matrix is not square')
    bad = [(r, c, matrix[r][c]) for r in range(n) for c in range(n) if matrix[r][c] not in (0, 1)]
    if bad:
        raise SymbolError('%d modules are neither dark nor light, e.g. module (%d,%d) = %r' % ((len(bad),) + bad[0]))
    res['structure_errors'] = check_structure(matrix, v)
    words, fm = read_format(matrix, v)
    res['format_words'] = words
    res['format_decoded'] = fm
    dist, (fv, lvl, mask) = fm[0]
    if is_micro(v):
        res['format_version'] = fv
    res['level'] = lvl
    res['mask'] = mask
    if not is_micro(v) and v >= 7:
        res['version_words'] = read_version_info(matrix, v)
    if is_micro(v) and fv != v:
        raise SymbolError('format info says %s but size says %s' % (fv, v))
    bits = unmasked_bits(matrix, v, mask)
    blocks, rem = split_codewords(bits, v, lvl)
    res['remainder'] = rem
    res['blocks'] = blocks
    synd_ok = []
    fixed = []
    for d, e in blocks:
        cw = list(d) + list(e)
        half = v in ('M1', 'M3')
        s = rs_syndromes(cw, len(e))
        ok = not any(s)
        synd_ok.append(ok)
        if ok or not correct:
            fixed.append(list(d))
        else:
            cc = rs_correct(cw, len(e))
            if cc is None:
                raise SymbolError('uncorrectable block')
            fixed.append(cc[:len(d)])
    res['rs_ok'] = synd_ok
    data_bits = []
    half = v in ('M1', 'M3')
    for bi, d in enumerate(fixed):
        for i, cw in enumerate(d):
            w = 4 if (half and i == len(d) - 1) else 8
            cwv = cw >> (8 - w)
            for k in range(w - 1, -1, -1):
                data_bits.append((cwv >> k) & 1)
    res['data_bits'] = data_bits
    res['capacity'] = data_capacity_bits(v, lvl)
    assert len(data_bits) == res['capacity'], (len(data_bits), res['capacity'])
    res.update(parse_stream(data_bits, v))
    return res


# ----------------------------------------------------------------------------
# ISO 7.4.9 / 7.4.10 tail model and a miniature encoder (used for self tests and as
# an independent constructor of symbols)
# ----------------------------------------------------------------------------
def iso_tail(v, lvl, end):
    """Bits that must follow the last segment ending at bit ``end`` up to the data capacity."""
    cap = data_capacity_bits(v, lvl)
    bits = []
    t = min(cap - end, terminator_bits(v))
    bits += [0] * t
    pos = end + t
    if pos % 8 and pos < cap:
        pad = min(8 - pos % 8, cap - pos)
        bits += [0] * pad
        pos += pad
    i = 0
    while cap - pos >= 8:
        cw = (0xEC, 0x11)[i % 2]
        i += 1
        bits += [(cw >> k) & 1 for k in range(7, -1, -1)]
        pos += 8
    if pos < cap:
        if not (v in ('M1', 'M3') and cap - pos == 4):
            raise AssertionError((v, lvl, end, pos, cap))
        bits += [0] * 4
    return bits


def _bits(val, n):
    return [(val >> k) & 1 for k in range(n - 1, -1, -1)]


def segment_data_bits(mode, payload):
    out = []
    if mode == NUMERIC:
        for i in range(0, len(payload), 3):
            g = payload[i:i + 3]
            out += _bits(int(g), (0, 4, 7, 10)[len(g)])
    elif mode == ALPHANUMERIC:
        for i in range(0, len(payload), 2):
            g = payload[i:i + 2]
            if len(g) == 2:
                out += _bits(ALNUM.index(chr(g[0])) * 45 + ALNUM.index(chr(g[1])), 11)
            else:
                out += _bits(ALNUM.index(chr(g[0])), 6)
    elif mode == BYTE:
        for b in payload:
            out += _bits(b, 8)
    elif mode == KANJI:
        for i in range(0, len(payload), 2):
            code = (payload[i] << 8) | payload[i + 1]
            code -= 0x8140 if code <= 0x9ffc else 0xc140
            out += _bits((code >> 8) * 0xc0 + (code & 0xff), 13)
    elif mode == HANZI:
        for i in range(0, len(payload), 2):
            code = (payload[i] << 8) | payload[i + 1]
            code -= 0xa1a1 if code <= 0xaafe else 0xa6a1
            out += _bits((code >> 8) * 0x60 + (code & 0xff), 13)
    else:
        raise ValueError(mode)
    return out


_QR_MODE_IND = {NUMERIC: 1, ALPHANUMERIC: 2, BYTE: 4, KANJI: 8, HANZI: 13}
_MICRO_MODE_IND = {NUMERIC: 0, ALPHANUMERIC: 1, BYTE: 2, KANJI: 3}


def stream_bits(v, segments, sa=None):
    """segments: list of (mode, payload bytes[, eci number])."""
    out = []
    if sa is not None:
        out += _bits(3, 4) + _bits(sa[0], 4) + _bits(sa[1], 4) + _bits(sa[2], 8)
    for seg in segments:
        mode, payload = seg[0], seg[1]
        if len(seg) > 2 and seg[2] is not None:
            out += _bits(7, 4) + _bits(seg[2], 8)
        if is_micro(v):
            out += _bits(_MICRO_MODE_IND[mode], mode_indicator_bits(v))
        else:
            out += _bits(_QR_MODE_IND[mode], 4)
            if mode == HANZI:
                out += _bits(1, 4)
        n = len(payload) // 2 if mode in (KANJI, HANZI) else len(payload)
        out += _bits(n, cci_bits(v, mode))
        out += segment_data_bits(mode, payload)
    return out


def build_matrix(v, lvl, mask, data_bits):
    """Builds the complete symbol for the given data bit stream (length = data capacity)."""
    if len(data_bits) != data_capacity_bits(v, lvl):
        raise ValueError('data bits do not fill the capacity')
    layout = block_layout(v, lvl)
    half = v in ('M1', 'M3')
    cws = []
    pos = 0
    total_data = sum(d for t, d in layout)
    for i in range(total_data):
        w = 4 if (half and i == total_data - 1) else 8
        val = 0
        for b in data_bits[pos:pos + w]:
            val = (val << 1) | b
        pos += w
        cws.append(val << (8 - w))
    blocks = []
    p = 0
    for t, d in layout:
        data = cws[p:p + d]
        p += d
        blocks.append((data, rs_encode(data, t - d)))
    bits = join_codewords(blocks, v, lvl)
    bits += [0] * remainder_bits(v)
    positions = data_positions(v)
    if len(bits) != len(positions):
        raise AssertionError((len(bits), len(positions)))
    n = size_of(v)
    cls, val = function_map(v)
    m = [[0] * n for _ in range(n)]
    for r in range(n):
        for c in range(n):
            if val[r][c] is not None:
                m[r][c] = val[r][c]
    fn = mask_fn(v, mask)
    for b, (r, c) in zip(bits, positions):
        m[r][c] = b ^ (1 if fn(r, c) else 0)
    fw = format_word(v, lvl, mask)
    c1, c2 = format_positions(v)
    for i, (r, c) in enumerate(c1):
        m[r][c] = (fw >> i) & 1
    for i, (r, c) in enumerate(c2 or []):
        m[r][c] = (fw >> i) & 1
    if not is_micro(v) and v >= 7:
        vw = golay18_6(v)
        a, b = version_positions(v)
        for i in range(18):
            m[a[i][0]][a[i][1]] = (vw >> i) & 1
            m[b[i][0]][b[i][1]] = (vw >> i) & 1
    return tuple(tuple(r) for r in m)


def mini_encode(v, lvl, mask, segments, sa=None):
    bits = stream_bits(v, segments, sa)
    cap = data_capacity_bits(v, lvl)
    if len(bits) > cap:
        raise ValueError('does not fit')
    bits += iso_tail(v, lvl, len(bits))
    return build_matrix(v, lvl, mask, bits)
