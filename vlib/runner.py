"""Sharded runner for the property checks: enumeration + Hypothesis search, bucketing by
signature, shrinking, replay files, evidence, known findings.

Exit codes: 0 property held on everything explored (KNOWN-FINDING lines allowed),
1 violation (``VIOLATION property=<id> replay=<path>``), 2 harness problem / vacuous run.
"""
import hashlib
import importlib
import json
import multiprocessing as mp
import os
import sys
import time
import traceback
from collections import Counter

ROOT = os.path.dirname(os.path.dirname(os.path.abspath(__file__)))
# evidence and replay files go to ROOT unless a sensitivity run redirects them
OUT = os.environ.get('VERIF_OUT') or ROOT
NPROC = int(os.environ.get('VERIF_NPROC', '16'))


class Dev:
    """A deviation from the property: ``sig`` is the root-cause bucket."""
    __slots__ = ('sig', 'msg')

    def __init__(self, sig, msg=''):
        self.sig = sig
        self.msg = str(msg)[:600]

    def __repr__(self):
        return 'Dev(%r, %r)' % (self.sig, self.msg)


class Outcome:
    __slots__ = ('devs', 'labels', 'nontrivial', 'refused', 'counters')

    def __init__(self, devs=(), labels=(), nontrivial=False, refused=False, counters=None):
        self.devs = list(devs)
        self.labels = tuple(labels)
        self.nontrivial = bool(nontrivial)
        self.refused = bool(refused)
        self.counters = counters or {}  # additional measured numbers, summed into coverage


class Enum:
    """A finite list of cases, executed completely (sharded round-robin)."""

    def __init__(self, name, cases, exhaustive=False, note=''):
        self.name = name
        self.cases = cases
        self.exhaustive = exhaustive
        self.note = note


class Search:
    """A Hypothesis strategy producing JSON cases; ``examples`` is the total budget."""

    def __init__(self, name, strategy, examples, shrink=True):
        self.name = name
        self.strategy = strategy
        self.examples = examples
        self.shrink = shrink


class Custom:
    """A phase implemented by the property module itself (e.g. stateful machines).
    ``fn(shard, nshards, seed, stats)`` must use stats.record(...) and return nothing."""

    def __init__(self, name, fn, shards=NPROC):
        self.name = name
        self.fn = fn
        self.shards = shards


class HarnessError(Exception):
    pass


class _Failure(Exception):
    pass


def case_hash(case):
    return hashlib.sha1(json.dumps(case, sort_keys=True, default=str).encode('utf-8')).hexdigest()[:16]


def load_known(prop):
    path = os.path.join(ROOT, 'known_findings.json')
    with open(path) as f:
        entries = json.load(f)
    return [e for e in entries if e.get('property') == prop]


class Stats:
    def __init__(self, known_sigs):
        self.known_sigs = set(known_sigs)
        self.evaluations = 0
        self.nontrivial = set()
        self.labels = Counter()
        self.refused = 0
        self.known_hits = Counter()
        self.known_examples = {}
        self.failures = []  # (sig, msg, case)
        self.samples = []
        self.phase_evals = Counter()
        self.harness_errors = []
        self.extra = {}

    def record(self, phase, case, out):
        """Book-keeping for one evaluated case.  Returns the list of new (unknown) deviations."""
        self.evaluations += 1
        self.phase_evals[phase] += 1
        for lb in out.labels:
            self.labels[lb] += 1
        if out.refused:
            self.refused += 1
        for k, v in out.counters.items():
            self.extra[k] = self.extra.get(k, 0) + v
        if out.nontrivial:
            h = case_hash(case)
            if h not in self.nontrivial:
                self.nontrivial.add(h)
                if len(self.samples) < 3:
                    self.samples.append(case)
        new = []
        for d in out.devs:
            if d.sig in self.known_sigs:
                self.known_hits[d.sig] += 1
                self.known_examples.setdefault(d.sig, (d.msg, case))
            else:
                new.append(d)
        return new

    def dump(self):
        return dict(evaluations=self.evaluations, nontrivial=self.nontrivial, labels=self.labels,
                    refused=self.refused, known_hits=self.known_hits, known_examples=self.known_examples,
                    failures=self.failures, samples=self.samples, phase_evals=self.phase_evals,
                    harness_errors=self.harness_errors, extra=self.extra)


def evaluate(mod, case):
    """Runs check_case; an exception escaping it that passed through the code under test is a
    deviation, anything else is a harness error."""
    try:
        return mod.check_case(case)
    except (KeyboardInterrupt, SystemExit, _Failure):
        raise
    except BaseException as ex:  # noqa: BLE001
        tb = traceback.extract_tb(ex.__traceback__)
        repo = os.environ.get('VERIF_REPO', '/repo')
        frames = [f for f in tb if os.path.abspath(f.filename).startswith(os.path.abspath(repo) + os.sep)]
        if frames:
            fr = frames[-1]
            return Outcome([Dev('%s/crash-%s@%s' % (mod.PROPERTY, type(ex).__name__, fr.name),
                                '%s: %s (%s:%d)' % (type(ex).__name__, ex, os.path.basename(fr.filename), fr.lineno))],
                           labels=('crash',), nontrivial=True)
        raise HarnessError('check_case raised outside the code under test:\n' + ''.join(traceback.format_exception(ex)))


def _run_enum(mod, phase, shard, nshards, stats):
    cases = phase.cases() if callable(phase.cases) else phase.cases
    seen = set()
    for case in cases[shard::nshards]:
        out = evaluate(mod, case)
        for d in stats.record(phase.name, case, out):
            if d.sig not in seen:  # one example per root cause, keep going
                seen.add(d.sig)
                stats.failures.append((d.sig, d.msg, case))


def _run_search(mod, phase, shard, nshards, seed, stats, tier):
    import hypothesis
    from hypothesis import HealthCheck, Phase, given, settings
    n = max(1, phase.examples // nshards)
    excluded = set()
    shrink_budget = 45.0 if tier == 'quick' else 240.0
    for _round in range(3 if tier == 'quick' else 6):
        state = {'fail': None, 't0': None}

        def body(case):
            out = evaluate(mod, case)
            new = [d for d in stats.record(phase.name, case, out) if d.sig not in excluded]
            if not new:
                return
            now = time.time()
            if state['t0'] is None:
                state['t0'] = now
            if now - state['t0'] > shrink_budget and state['fail'] is not None \
                    and case_hash(case) != case_hash(state['fail'][2]):
                return  # shrink budget exhausted: only the best known failure keeps failing
            state['fail'] = (new[0].sig, new[0].msg, case)
            raise _Failure(new[0].sig)

        phases = [Phase.explicit, Phase.generate] + ([Phase.shrink] if phase.shrink else [])
        test = given(phase.strategy)(body)
        test = settings(max_examples=n, database=None, deadline=None, derandomize=False,
                        report_multiple_bugs=False, phases=phases, print_blob=False,
                        suppress_health_check=list(HealthCheck))(test)
        test = hypothesis.seed(seed * 1000 + shard * 7 + _round)(test)
        try:
            test()
        except _Failure:
            pass
        except HarnessError:
            raise
        except BaseException as ex:  # noqa: BLE001
            if state['fail'] is None:
                if type(ex).__name__ in ('Unsatisfiable', 'FailedHealthCheck'):
                    raise HarnessError('generator problem in phase %s: %r' % (phase.name, ex))
                if type(ex).__name__ == 'Flaky' or 'Flaky' in type(ex).__name__:
                    raise HarnessError('flaky case in phase %s: %s' % (phase.name, ex))
                raise HarnessError('phase %s: %s' % (phase.name, ''.join(traceback.format_exception(ex))))
        if state['fail'] is None:
            return
        stats.failures.append(state['fail'])
        excluded.add(state['fail'][0])
        n = max(1, n // 2)


_PHASES = None


def _worker(args):
    modname, tier, seed, phase_idx, shard, nshards = args
    try:
        mod = importlib.import_module(modname)
        stats = Stats(s['signature'] for s in load_known(mod.PROPERTY) if s.get('status') == 'known')
        phase = (_PHASES or mod.phases(tier, seed))[phase_idx]
        try:
            if isinstance(phase, Enum):
                _run_enum(mod, phase, shard, nshards, stats)
            elif isinstance(phase, Search):
                _run_search(mod, phase, shard, nshards, seed, stats, tier)
            else:
                phase.fn(shard, nshards, seed, stats)
        except HarnessError as ex:
            stats.harness_errors.append('%s[%d]: %s' % (phase.name, shard, ex))
        return stats.dump()
    except BaseException as ex:  # noqa: BLE001
        return dict(fatal=''.join(traceback.format_exception(ex)))


def _child(conn, args):
    """Body of one forked worker: memory cap, run the task, send the result."""
    try:
        import resource
        cap = int(os.environ.get('VERIF_MEM_MB', '6000')) * 1024 * 1024
        resource.setrlimit(resource.RLIMIT_AS, (cap, cap))
    except Exception:  # noqa: BLE001
        pass
    try:
        res = _worker(args)
    except BaseException as ex:  # noqa: BLE001
        res = dict(fatal=''.join(traceback.format_exception(ex)))
    try:
        conn.send(res)
    except BaseException as ex:  # noqa: BLE001
        try:
            conn.send(dict(fatal='cannot send result: %r' % (ex,)))
        except BaseException:  # noqa: BLE001
            pass
    conn.close()
    os._exit(0)


def _schedule(tasks, total, fatal, tier):
    """Runs every task in its own forked process, at most NPROC at a time.  A worker that dies
    (killed, out of memory) or exceeds the watchdog is reported, it never hangs the run."""
    from multiprocessing.connection import wait
    ctx = mp.get_context('fork')
    limit = float(os.environ.get('VERIF_TASK_TIMEOUT', '1500' if tier == 'quick' else '21600'))
    pending = list(tasks)[::-1]
    running = {}
    while pending or running:
        while pending and len(running) < NPROC:
            args = pending.pop()
            rd, wr = ctx.Pipe(duplex=False)
            proc = ctx.Process(target=_child, args=(wr, args))
            proc.start()
            wr.close()
            running[rd] = (proc, args, time.time())
        ready = wait(list(running), timeout=5.0)
        for rd in ready:
            proc, args, _t = running.pop(rd)
            try:
                part = rd.recv()
            except (EOFError, OSError):
                proc.join(5)
                fatal.append('worker for phase %d shard %d died without a result (exit code %r; killed or out of '
                             'memory)' % (args[3], args[4], proc.exitcode))
                rd.close()
                continue
            rd.close()
            proc.join(30)
            if 'fatal' in part:
                fatal.append(part['fatal'])
            else:
                _merge(total, part)
        now = time.time()
        for rd, (proc, args, t_start) in list(running.items()):
            if now - t_start > limit:
                proc.kill()
                proc.join(5)
                running.pop(rd)
                rd.close()
                fatal.append('worker for phase %d shard %d exceeded the watchdog of %.0f s and was stopped '
                             '(inconclusive, not a violation)' % (args[3], args[4], limit))


def _merge(total, part):
    total.evaluations += part['evaluations']
    total.nontrivial |= part['nontrivial']
    total.labels.update(part['labels'])
    total.refused += part['refused']
    total.known_hits.update(part['known_hits'])
    for k, v in part['known_examples'].items():
        total.known_examples.setdefault(k, v)
    total.failures.extend(part['failures'])
    total.phase_evals.update(part['phase_evals'])
    total.harness_errors.extend(part['harness_errors'])
    for s in part['samples']:
        if len(total.samples) < 8:
            total.samples.append(s)
    for k, v in part['extra'].items():
        if isinstance(v, (int, float)):
            total.extra[k] = total.extra.get(k, 0) + v
        elif isinstance(v, (set, frozenset)):
            total.extra[k] = set(total.extra.get(k, set())) | set(v)
        elif isinstance(v, Counter):
            c = total.extra.setdefault(k, Counter())
            c.update(v)
        else:
            total.extra.setdefault(k, v)


def write_replay(prop, sig, msg, case):
    d = os.path.join(OUT, 'replays')
    os.makedirs(d, exist_ok=True)
    path = os.path.join(d, '%s-%s.json' % (prop, case_hash([sig, case])))
    with open(path, 'w') as f:
        json.dump(dict(property=prop, signature=sig, message=msg, case=case), f, indent=1, sort_keys=True)
    return os.path.relpath(path, OUT) if OUT == ROOT else path


def run_replay(mod, path):
    with open(path) as f:
        doc = json.load(f)
    case = doc['case'] if isinstance(doc, dict) and 'case' in doc else doc
    known = {s['signature'] for s in load_known(mod.PROPERTY) if s.get('status') == 'known'}
    out = evaluate(mod, case)
    bad = [d for d in out.devs if d.sig not in known]
    for d in out.devs:
        print(('KNOWN-FINDING: property=%s %s' if d.sig in known else 'deviation: property=%s %s')
              % (mod.PROPERTY, d.sig), '--', d.msg)
    if bad:
        print('VIOLATION property=%s replay=%s' % (mod.PROPERTY, path))
        return 1
    print('replay ok: property=%s labels=%s refused=%s' % (mod.PROPERTY, list(out.labels), out.refused))
    return 0


def main(modname, tier, seed):
    t0 = time.time()
    mod = importlib.import_module(modname)
    prop = mod.PROPERTY
    known = load_known(prop)
    known_sigs = {s['signature']: s for s in known if s.get('status') == 'known'}
    total = Stats(known_sigs)
    # 1. regression / replay tier
    rdir = os.path.join(ROOT, 'regress', prop)
    n_regress = 0
    if os.path.isdir(rdir):
        for name in sorted(os.listdir(rdir)):
            if not name.endswith('.json'):
                continue
            with open(os.path.join(rdir, name)) as f:
                doc = json.load(f)
            case = doc['case']
            try:
                out = evaluate(mod, case)
            except HarnessError as ex:
                total.harness_errors.append('regress %s: %s' % (name, ex))
                continue
            n_regress += 1
            for d in total.record('regress', case, out):
                total.failures.append((d.sig, d.msg, case))
            exp = doc.get('expect')
            if exp and exp.startswith('known:') and exp[6:] not in [d.sig for d in out.devs]:
                # the pinned known finding no longer reproduces: not an alarm, but say so
                print('note: regress/%s/%s no longer shows %s' % (prop, name, exp[6:]))
    # 2. phases
    global _PHASES
    phases = mod.phases(tier, seed)
    for ph in phases:
        if isinstance(ph, Enum) and callable(ph.cases):
            ph.cases = ph.cases()
    _PHASES = phases  # inherited by the forked workers
    tasks = []
    for i, ph in enumerate(phases):
        nsh = ph.shards if isinstance(ph, Custom) else NPROC
        if isinstance(ph, Enum):
            nsh = NPROC * 4  # finer slices for load balancing
        for s in range(nsh):
            tasks.append((modname, tier, seed, i, s, nsh))
    fatal = []
    _schedule(tasks, total, fatal, tier)
    wall = time.time() - t0
    # 3. report
    rc = 0
    by_sig = {}
    for sig, msg, case in total.failures:
        by_sig.setdefault(sig, (msg, case))
    replays = []
    for sig, (msg, case) in sorted(by_sig.items()):
        path = write_replay(prop, sig, msg, case)
        replays.append(dict(signature=sig, message=msg, replay=path))
        print('VIOLATION property=%s replay=%s' % (prop, path))
        print('  signature=%s %s' % (sig, msg))
        rc = 1
    for sig, ent in sorted(known_sigs.items()):
        hits = total.known_hits.get(sig, 0)
        print('KNOWN-FINDING: property=%s %s -- %s (hits this run: %d)' % (prop, ent['id'], ent['description'], hits))
    required = set(mod.required_labels(tier)) if hasattr(mod, 'required_labels') else set()
    missing = sorted(lb for lb in required if not total.labels.get(lb))
    problems = list(total.harness_errors) + fatal
    if missing:
        problems.append('required case classes never generated: %s' % missing)
    if total.evaluations == 0:
        problems.append('no case evaluated')
    exhaustive_domains = [dict(name=ph.name, cases=total.phase_evals.get(ph.name, 0), note=ph.note)
                          for ph in phases if isinstance(ph, Enum) and ph.exhaustive]
    extra = {}
    for k, v in total.extra.items():
        if isinstance(v, (set, frozenset)):
            extra[k] = len(v)
        elif isinstance(v, Counter):
            extra[k] = dict(sorted(v.items(), key=lambda kv: str(kv[0])))
        else:
            extra[k] = v
    cov = dict(
        evaluations=total.evaluations,
        distinct_nontrivial=len(total.nontrivial),
        rule=mod.RULE,
        samples=total.samples[:8],
        refused=total.refused,
        regress_cases=n_regress,
        phases={k: v for k, v in sorted(total.phase_evals.items())},
        label_distribution=dict(sorted(total.labels.items(), key=lambda kv: (-kv[1], kv[0]))[:80]),
        exhaustive_domains=exhaustive_domains,
        exhaustive=False,
        known_finding_hits=dict(total.known_hits),
        violations_found=replays,
        harness_problems=[(p if len(p) < 1600 else p[:300] + ' ... ' + p[-1200:]) for p in problems],
    )
    cov.update(extra)
    ev = dict(property_id=prop, tier=tier, seed=seed, level=getattr(mod, 'LEVEL', 'exploration'),
              coverage=cov, assumptions=list(getattr(mod, 'ASSUMPTIONS', [])), wall_s=round(wall, 2),
              violations=len(by_sig))
    os.makedirs(os.path.join(OUT, 'evidence'), exist_ok=True)
    with open(os.path.join(OUT, 'evidence', prop + '.json'), 'w') as f:
        json.dump(ev, f, indent=1, sort_keys=True, default=str)
        f.write('\n')
    print('%s tier=%s seed=%d evaluations=%d distinct_nontrivial=%d refused=%d violations=%d wall=%.1fs'
          % (prop, tier, seed, total.evaluations, len(total.nontrivial), total.refused, len(by_sig), wall))
    if problems and rc == 0:
        for p in problems:
            print('HARNESS-PROBLEM: %s' % p, file=sys.stderr)
        rc = 2
    elif problems:
        for p in problems:
            print('HARNESS-PROBLEM: %s' % p, file=sys.stderr)
    return rc
