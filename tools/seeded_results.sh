#!/bin/bash
# Runs every seeded change against the quick check of its property (or the checks listed in seeded/<name>/checks, in the
# tier named in seeded/<name>/tier) and writes seeded/RESULTS.md.  PAR changes run at a time (default 3).
cd /verif
out=${OUT_MD:-seeded/RESULTS.md}
rows=${ROWS:-/tmp/seedrows}; export rows; rm -rf $rows; mkdir -p $rows
row() {
  d=seeded/$1/
  name=$1
  prop=${name%%-*}
  checks=$prop; [ -f $d/checks ] && checks=$(cat $d/checks)
  tier=quick; [ -f $d/tier ] && tier=$(cat $d/tier)
  lines=$(TIER=$tier tools/run_seeded.sh $name $checks 2>&1 | grep " tier=")
  rc=0; echo "$lines" | grep -q " rc=2 " && rc=2; echo "$lines" | grep -q " rc=1 " && rc=1
  t=$(echo "$lines" | sed 's/.* time=\([0-9]*s\) .*/\1/' | tr '\n' '+' | sed 's/+$//')
  sigs=$(echo "$lines" | sed 's/^[^ ]* \([^ ]*\) .*sigs: /\1: /' | tr '\n' ' ')
  summary=$(/venv/bin/python -c "import json;m=json.load(open('$d/meta.json'));print(m.get('summary','').replace('|','/').replace('\n',' ')[:160])")
  needs=$(/venv/bin/python -c "import json;m=json.load(open('$d/meta.json'));print(str(m.get('needs','')).replace('|','/').replace('\n',' ')[:160])")
  res="MISSED"; [ "$rc" = "1" ] && res="caught ($t, $tier tier)"; [ "$rc" = "2" ] && res="harness problem"
  echo "| $name | $prop | $summary | $needs | $res | $sigs |" > $rows/$name.row
}
export -f row
ls seeded | grep -E '^C[0-9]+-m[0-9]+$' | xargs -P ${PAR:-3} -I{} bash -c 'row {}'
{
echo "# Seeded changes vs. checks"
echo
echo "Produced by tools/seeded_results.sh: each patch is applied in a scratch worktree of /repo HEAD, the quick check of the"
echo "owning property (or the checks / tier named in seeded/<name>/checks, seeded/<name>/tier) is run against it with --repo, the"
echo "worktree is removed. rc=1 = caught (VIOLATION), rc=0 = missed.  VERIF_SEED of this run: ${VERIF_SEED:-1}."
echo
echo "| change | property | what was changed | needs | check result | signatures |"
echo "|---|---|---|---|---|---|"
for n in $(ls seeded | grep -E '^C[0-9]+-m[0-9]+$' | sort -t- -k1,1 -k2.2n); do cat $rows/$n.row; done
} > $out.tmp
mv $out.tmp $out
grep -c "caught" $out; grep -E "MISSED|harness problem" $out | cut -c1-200
