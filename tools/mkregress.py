#!/venv/bin/python
"""Writes the committed regression cases (former failing inputs of the fixed defects and one pinned
case per known finding).  They are replayed first by every check."""
import json, os, sys
HERE = os.path.dirname(os.path.dirname(os.path.abspath(__file__)))
sys.path.insert(0, HERE)
os.environ.setdefault('VERIF_REPO', '/repo')
from vlib.common import enc_content

def put(prop, name, case, expect='pass', note=''):
    d = os.path.join(HERE, 'regress', prop)
    os.makedirs(d, exist_ok=True)
    json.dump(dict(case=case, expect=expect, note=note), open(os.path.join(d, name + '.json'), 'w'), indent=1, sort_keys=True)

def mk(content, fn='make', **kw):
    return {'fn': fn, 'content': enc_content(content), 'kw': kw}

# C01
put('C01', 'f01-kanji-trail-byte', mk(b'\x82\x30', micro=False), note='fixed 6749c1e')
put('C01', 'f01-kanji-trail-text', mk('\x820', micro=False))
put('C01', 'f02-hanzi-trail-byte', mk(b'\xb1\x30', mode='hanzi'), note='fixed 4aaa6fd (refused now)')
put('C01', 'f03-eci-micro', mk('ä', encoding='utf-8', eci=True), note='fixed 6da6211')
put('C01', 'f04-merge-numeric', mk(['12', '345'], micro=False), note='fixed 3a1e51d')
put('C01', 'f04-merge-alnum', mk(['ABC', 'DE', 'F'], micro=False))
put('C01', 'f05-hanzi-exact-fit', mk('书' * 11, mode='hanzi', error='L', boost_error=False), note='fixed 7834584')
put('C01', 'f06-cp437-eci', mk('é', encoding='cp437', eci=True), note='fixed c454cf2')
# C07
put('C07', 'f02-odd-kanji', mk(b'\x93', mode='kanji', micro=False))
put('C07', 'f02-odd-hanzi', mk(b'\x93', mode='hanzi'))
put('C07', 'f01-trail', mk(b'\x82\x30', micro=False, mask=0))
# C13
put('C13', 'k1-aligned', mk('ab', micro=False, error='L', boost_error=False, mask=0), expect='known:C13/K1-extra-zero-codeword-when-aligned',
    note='byte mode: 4+8+16 = 28 bits + 4 terminator = 32, aligned')
put('C13', 'f08-m3-pad', mk('1', version='M3', error='L', boost_error=False), note='fixed 635603b')
put('C13', 'f08-m1-pad', mk('1', version='M1'), note='fixed 635603b')
# C06
put('C06', 'f07-n3-overlap', mk('prhClwsekk', micro=False), note='fixed d0d930d')
# C04
put('C04', 'f05-hanzi-boundary', {'kind': 'boundary', 'mode': 'hanzi', 'n': 11, 'kw': {'boost_error': False, 'mask': 0, 'mode': 'hanzi', 'error': 'L'}})
put('C04', 'f03-eci-numeric', {'kind': 'eci', 'mode': 'numeric', 'n': 1, 'kw': {'eci': True, 'boost_error': False, 'mask': 0}})
put('C01', 'f26-many-segments-requested-version', mk(['1', 'A', '1', 'A', '1', 'A', '1', 'A', '1'], version=1), note='fixed 5c99981')
put('C04', 'f26-many-segments-requested-version', mk(['1', 'A', '1', 'A', '1', 'A', '1', 'A', '1'], version=1), note='fixed 5c99981')
print('regress written')

# C08
def seqcase(content, **kw):
    return {'fn': 'make_sequence', 'content': enc_content(content), 'kw': kw}
put('C08', 'k3-16-symbol-limit', seqcase('1' * 180, version=1, error='H'), expect='known:C08/K3-version-path-truncated-at-16-symbols',
    note='1-H holds 11 digits per symbol with the SA header: 176 digits in 16 symbols')
put('C08', 'f09-parity-explicit-encoding', seqcase('äöü€' * 5, symbol_count=3, encoding='utf-8'), note='fixed 18c6676')
put('C08', 'f09-kanji-chunks', seqcase('点茗' * 8, symbol_count=3))
put('C08', 'f09-int-byte', seqcase(12345678901234567890, symbol_count=2, encoding='utf-8', mode='byte'))
put('C08', 'f10-grow', seqcase('1' * 100, version=1, error='h'), note='fixed 449ae54')
print('C08 regress written')

# C11
put('C11', 'k2-format-module', {'what': 'iter', 'sym': {'content': enc_content('1'), 'kw': {'version': 1, 'mask': 0}}, 'scale': 1, 'border': 0},
    expect='known:C11/K2-module-8-size-9-typed-format')
put('C11', 'f16-two-colour-shortcut', {'what': 'colourful', 'kind': 'png', 'sym': {'content': enc_content('1'), 'kw': {'version': 7, 'mask': 0}},
    'opts': {'dark': '#c17690', 'light': None, 'version_dark': None, 'scale': 1}}, note='fixed 20993bd')
put('C11', 'f24-all-transparent', {'what': 'colourful', 'kind': 'png', 'sym': {'content': enc_content('1'), 'kw': {'version': 1, 'mask': 0}},
    'opts': {'dark': None, 'light': None, 'scale': 1}}, note='fixed 170b03b')
put('C09', 'f27-float-alpha-png', {'sym': {'content': enc_content('12345'), 'kw': {'version': 1, 'mask': 2}}, 'kind': 'png', 'opts': {'dark': [255, 0, 0, 0.5], 'border': 1}}, note='fixed 288f385')
print('C11 regress written')

# C14
for kind in ('svg', 'png', 'eps'):
    for bad in ('#-12345', '#+1+2+3', '#1_2_3_'):
        put('C14', 'f28-hex-%s-%s' % (kind, ''.join('%02x' % ord(c) for c in bad)), {'what': 'serializer', 'kind': kind, 'opts': {'dark': bad}, 'bad': 'colour'}, note='fixed ffc3e27')
print('C14 regress written')

# F29
for i, (d, li) in enumerate(((([255, 0, 0, 128]), 'DEFAULT'), ('#ff000080', 'white'), ('#00000080', None), ([0, 0, 0, 0.5], '#00ff00'), ('black', '#ffffff80'))):
    opts = {'dark': d, 'border': 1}
    if li != 'DEFAULT':
        opts['light'] = li
    put('C09', 'f29-pam-alpha-%d' % i, {'sym': {'content': enc_content('12345'), 'kw': {'version': 1, 'mask': 2}}, 'kind': 'pam', 'opts': opts}, note='fixed 971f002')
print('F29 regress written')
