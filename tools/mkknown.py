#!/venv/bin/python
"""Writes known_findings.json (committed; read-only at run time)."""
import json, os
HERE = os.path.dirname(os.path.dirname(os.path.abspath(__file__)))
E = []
def fixed(pid, commit, what, fid):
    E.append(dict(property=pid, id=fid, status='fixed', commit=commit,
                  description='fixed: property=%s %s %s' % (pid, commit, what)))
def known(pid, fid, signature, what, matcher, pinned_by):
    E.append(dict(property=pid, id=fid, status='known', signature=signature, description=what, matcher=matcher,
                  pinned_by=pinned_by))
fixed('C01', '6749c1e', "auto-detected Kanji mode for byte pairs with an invalid Shift JIS trail byte (make(b'\\x82\\x30')) decodes to other bytes", 'F01')
fixed('C07', '6749c1e', "is_kanji accepted byte pairs with trail byte < 0x40, 0x7F, > 0xFC", 'F01')
fixed('C07', '4aaa6fd', "mode='kanji'/'hanzi' with odd-length content raised IndexError, invalid trail bytes were encoded lossy", 'F02')
fixed('C14', '4aaa6fd', "make(b'\\x93', mode='kanji') raised IndexError instead of ValueError", 'F02')
fixed('C01', '4aaa6fd', "make(b'\\xb1\\x30', mode='hanzi') decoded to other bytes", 'F02')
fixed('C01', '6da6211', "make('ä', encoding='utf-8', eci=True) returned a Micro QR symbol with an ECI header (undecodable)", 'F03')
fixed('C04', '6da6211', "Micro QR chosen although eci was requested", 'F03')
fixed('C01', '3a1e51d', "make(['12', '345']) merged the bit strings of incomplete numeric/alphanumeric groups", 'F04')
fixed('C04', '7834584', "Hanzi subset indicator not counted: 122 capacity boundaries one version too small, 6 overflows accepted", 'F05')
fixed('C05', '7834584', "boosting used a level which does not hold exactly fitting Hanzi content", 'F05')
fixed('C01', '7834584', "exactly fitting Hanzi content was truncated", 'F05')
fixed('C01', 'c454cf2', "cp437 was announced with ECI 1 (ISO 8859-1) instead of 0/2", 'F06')
fixed('C06', 'd0d930d', "N3 skipped overlapping 1:1:3:1:1 occurrences; a mask with a higher penalty was chosen (13 of 3000 symbols)", 'F07')
fixed('C13', '635603b', "M1/M3 symbols were padded with zero bits instead of 11101100/00010001", 'F08')
fixed('C08', '18c6676', "make_sequence: chunks of a text chose their own encoding, parity over a re-guessed encoding, TypeError for int content", 'F09')
fixed('C14', '18c6676', "make_sequence(int, encoding=...) raised TypeError", 'F09')
fixed('C08', '449ae54', "make_sequence(version=v): symbol count under-estimated, chunks cut off silently (below the 16 symbol limit)", 'F10')
fixed('C09', 'cc98ba6', "PBM/PAM/XPM/XBM header contained a fractional size for a fractional scale", 'F11')
fixed('C09', '5ef8709', "PAM MAXVAL was the largest sample of the two colors", 'F12')
fixed('C09', '82340e9', "PAM black/white tuple types always painted dark modules black", 'F13')
fixed('C10', '980d41a', "SVG background one module short for fractional scales (7.7, 3.3, ...)", 'F14')
fixed('C10', 'd282335', "PDF: no scale matrix for scale < 1, drawing clipped", 'F15')
fixed('C11', '20993bd', "PNG/SVG two-colour shortcut ignored which module type has which colour", 'F16')
fixed('C12', '2f705f3', "CLI wrote '12None' units into every .tex file", 'F17')
fixed('C16', '65265ec', "mailto:a@b.c&body=hi (wrong delimiter without subject)", 'F18')
fixed('C16', 'cc0a30e', "CR/LF in vCard values created additional content lines; date regex accepted a trailing newline", 'F19')
fixed('C14', 'e290d37', "empty colour string raised IndexError", 'F20')
fixed('C10', '073fa1b', "alpha 0x10 written as opacity 0.625", 'F21')
fixed('C10', '373e709', "EPS/PDF: channel value 1 of a hex colour written as full intensity", 'F22')
fixed('C09', 'f7f97f1', "integer alpha 1 treated as opaque in PNG", 'F23')
fixed('C11', '170b03b', "PNG with only transparent colours (dark=None, light=None) raised IndexError", 'F24')
fixed('C14', 'bcff094', "CLI printed a traceback for an unknown --encoding (LookupError while creating the symbol)", 'F25')
fixed('C04', '5c99981', "requested version larger than the minimal one was not checked against its own (larger) per-segment overhead: make(['1','A','1','A','1','A','1','A','1'], version=1) truncated", 'F26')
fixed('C01', '5c99981', "many-segment content with a requested version was cut off silently", 'F26')
fixed('C09', '288f385', "float alpha in a colour tuple ((255, 0, 0, 0.5)) made the PNG writer fail with struct.error", 'F27')
fixed('C14', '288f385', "struct.error escaped from save(kind='png', dark=(r, g, b, 0.5))", 'F27')
fixed('C09', '971f002', "PAM: a colour with an alpha channel together with a non-transparent counterpart (dark='#ff000080') failed with struct.error; the alpha of a black / white colour with light=None was dropped", 'F29')
fixed('C14', '971f002', "struct.error escaped from save(kind='pam', dark='#ff000080')", 'F29')
fixed('C14', 'ffc3e27', "malformed hexadecimal colours with sign / blank / underscore ('#-12345') were accepted or failed with struct.error", 'F28')
known('C13', 'K1', 'C13/K1-extra-zero-codeword-when-aligned',
      'an additional 00000000 codeword is written before the pad codewords whenever the terminated bit stream already ends on a codeword boundary and at least one codeword of capacity is left (QR, M2, M4)',
      'observed tail == terminator + 8 zero bits + 11101100/00010001 alternating up to the capacity, in a symbol that is not M1/M3 whose terminated stream length is a multiple of 8 and smaller than the capacity; any other tail is a violation',
      ['tests/test_issue84_cli_encoding.py', 'tests/test_structured_append.py (2 tests)', 'tests/test_terminal.py::test_terminal_compact', 'tests/test_txt.py', 'tests/test_xbm.py::test_scale'])
known('C11', 'K2', 'C11/K2-module-8-size-9-typed-format',
      'matrix_iter(verbose=True) reports module (8, size-9) of QR symbols as format information (light/dark) although it is a data module',
      'row 8, column size-9, QR symbols only, reported type TYPE_FORMAT_LIGHT/DARK consistent with the module value; colourful outputs paint that module with the format colour; any other coordinate or type is a violation',
      ['tests/test_utils_iterverbose.py::test_format_light_qr', 'tests/test_utils_iterverbose.py::test_format_dark_and_light_qr'])
known('C08', 'K3', 'C08/K3-version-path-truncated-at-16-symbols',
      'make_sequence(content, version=v) returns 16 symbols and silently truncates when the content needs more than 16 symbols of that version but the estimate says 16',
      'version given, symbol_count None, len(sequence) == 16, reference model: content does not fit 16 symbols of that version/level; a truncated sequence of fewer than 16 symbols, the symbol_count path, parity or order errors are violations',
      ['tests/test_structured_append.py::test_dataoverflow_error'])
json.dump(E, open(os.path.join(HERE, 'known_findings.json'), 'w'), indent=1, ensure_ascii=False)
print(len(E), 'entries')
