NA = {}
chk('C02', 'exploration',
    'All 1312 (version, level, mask) triples are enumerated exhaustively with several data contents each; automatic choices are sampled with Hypothesis. Geometry, function patterns, both format copies, both version copies and all metadata are compared with values computed from the standard (BCH/Golay from the polynomials, Annex E positions generated). Exhaustive over the triple space, sampled over data.',
    'Trusted: vlib/qrref.py (validated against the module grids printed in ISO/IEC 18004 and by re-building them bit-exactly); sampled data only.',
    'exhaustive enumeration + Hypothesis search against an ISO 18004 reference model', 'DESIGN.md 4/C02')
