NA = {}
chk('C02', 'exploration',
    'All 1312 (version, level, mask) triples are enumerated exhaustively with several data contents each; automatic choices are sampled with Hypothesis. Geometry, function patterns, both format copies, both version copies and all metadata are compared with values computed from the standard (BCH/Golay from the polynomials, Annex E positions generated). Exhaustive over the triple space, sampled over data.',
    'Trusted: vlib/qrref.py (validated against the module grids printed in ISO/IEC 18004 and by re-building them bit-exactly); sampled data only.',
    'exhaustive enumeration + Hypothesis search against an ISO 18004 reference model', 'DESIGN.md 4/C02')
chk('C01', 'exploration',
    'Generated contents x option combinations are encoded by segno and read back by an independent ISO 18004 reference decoder; the payload bytes must equal the bytes the statement prescribes (policy model) and ECI headers are compared with a table typed in from the AIM register. Sampled: it shows absence of round-trip defects only on the generated cases (class distribution in the evidence).',
    'Trusted: vlib/qrref.py decoder (validated against the ISO figures), Python codecs, typed-in ECI table. Inputs are sampled, not exhaustive.',
    'Hypothesis property-based round trip through an independent reference decoder', 'DESIGN.md 4/C01')
chk('C03', 'fault_enumeration',
    'All 168 (version, level) block layouts are enumerated; for each, zero syndromes over the re-derived Table 9 de-interleaving are required for several data contents, and injected codeword errors (max weight per block, random, bursts on the matrix; all single-codeword errors at every position) must be corrected by an independent Berlekamp-Massey decoder to the identical data bits. Error patterns of weight >= 2 are sampled.',
    'Trusted: GF(256)/RS implementation in vlib/qrref.py (self-tested), Table 9 rows typed in from the standard. Multi-error patterns sampled; single errors enumerated (<= v10 quick, all thorough).',
    'fault injection into generated symbols + syndrome check / RS decoding by a reference model', 'DESIGN.md 4/C03')
chk('C04', 'exploration',
    'Both sides of every capacity boundary (5 modes x 5 levels x 3 micro settings x all admissible versions), every boundary with an exact / too small / larger requested version, and eci=True boundaries are enumerated exhaustively against a capacity model derived from ISO Tables 2, 3, 7; multi-part contents are sampled and re-costed from the decoded segment structure. Every accepted symbol is decoded to show that nothing was cut.',
    'Trusted: capacity/bit-length model in vlib/qrref.py + vlib/common.py, reference decoder. Exhaustive over boundaries for mode-pure content, sampled for mixed content.',
    'exhaustive boundary enumeration + Hypothesis search against a capacity reference model', 'DESIGN.md 4/C04')
