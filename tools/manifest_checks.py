NA = {}
chk('C02', 'exploration',
    'All 1312 (version, level, mask) triples are enumerated exhaustively with several data contents each; automatic choices are sampled with Hypothesis. Geometry, function patterns, both format copies, both version copies and all metadata are compared with values computed from the standard (BCH/Golay from the polynomials, Annex E positions generated). Exhaustive over the triple space, sampled over data.',
    'Trusted: vlib/qrref.py (validated against the module grids printed in ISO/IEC 18004 and by re-building them bit-exactly); sampled data only.',
    'exhaustive enumeration + Hypothesis search (+ atheris coverage-guided fuzzing in the thorough tier) against an ISO 18004 reference model', 'DESIGN.md 4/C02')
chk('C01', 'exploration',
    'Generated contents x option combinations are encoded by segno and read back by an independent ISO 18004 reference decoder; the payload bytes must equal the bytes the statement prescribes (policy model) and ECI headers are compared with a table typed in from the AIM register. Sampled: it shows absence of round-trip defects only on the generated cases (class distribution in the evidence).',
    'Trusted: vlib/qrref.py decoder (validated against the ISO figures), Python codecs, typed-in ECI table. Inputs are sampled, not exhaustive.',
    'Hypothesis property-based round trip (+ atheris coverage-guided fuzzing in the thorough tier) through an independent reference decoder', 'DESIGN.md 4/C01')
chk('C03', 'fault_enumeration',
    'All 168 (version, level) block layouts are enumerated; for each, zero syndromes over the re-derived Table 9 de-interleaving are required for several data contents, and injected codeword errors (max weight per block, random, bursts on the matrix; all single-codeword errors at every position) must be corrected by an independent Berlekamp-Massey decoder to the identical data bits. Error patterns of weight >= 2 are sampled.',
    'Trusted: GF(256)/RS implementation in vlib/qrref.py (self-tested), Table 9 rows typed in from the standard. Multi-error patterns sampled; single errors enumerated (<= v10 quick, all thorough).',
    'fault injection into generated symbols + syndrome check / RS decoding by a reference model', 'DESIGN.md 4/C03')
chk('C04', 'exploration',
    'Both sides of every capacity boundary (5 modes x 5 levels x 3 micro settings x all admissible versions), every boundary with an exact / too small / larger requested version, and eci=True boundaries are enumerated exhaustively against a capacity model derived from ISO Tables 2, 3, 7; multi-part contents are sampled and re-costed from the decoded segment structure. Every accepted symbol is decoded to show that nothing was cut.',
    'Trusted: capacity/bit-length model in vlib/qrref.py + vlib/common.py, reference decoder. Exhaustive over boundaries for mode-pure content, sampled for mixed content.',
    'exhaustive boundary enumeration + Hypothesis search (+ atheris coverage-guided fuzzing in the thorough tier) against a capacity reference model', 'DESIGN.md 4/C04')
chk('C05', 'exploration',
    'Exact-fit lengths of every level of the listed versions are enumerated x requested level x boost x version requested/not; the level is read from the format bits and compared with the highest level whose capacity (model) holds the decoded segment structure; the version is compared with the boost_error=False result. Hypothesis adds free and multi-part cases.',
    'Trusted: capacity model, reference decoder. Enumeration over exact-fit lengths (quick: Micro, 1-10, 20, 27, 40; thorough: all), other lengths sampled.',
    'enumeration of exact-fit lengths + Hypothesis search (+ atheris coverage-guided fuzzing in the thorough tier), level decoded from the format information', 'DESIGN.md 4/C05')
chk('C06', 'exploration',
    'For generated symbols (all versions) the 8/4 candidate maskings are rebuilt from the emitted matrix by unmask/remask and scored by an independent implementation of ISO 7.8.3; segno must have picked the lowest-numbered optimum. Requested masks are checked for all (version, level, mask) triples (thorough) via format bits and zero syndromes after unmasking, also for Structured Append sequences.',
    'Trusted: vlib/penalty.py (my reading of 7.8.3, two stated oracle decisions), vlib/qrref.py. Symbols are sampled.',
    'Hypothesis search + metamorphic reconstruction of all mask candidates against an independent penalty implementation', 'DESIGN.md 4/C06')
chk('C07', 'exploration',
    'All 65792 one- and two-byte contents are enumerated with automatic mode, requested modes over the same small scope (stratified in quick), longer class-stratified texts x requested modes x versions are sampled; the mode indicator decoded from the symbol is compared with byte predicates typed in from the statement and with QRCode.mode.',
    'Trusted: byte predicates (vlib/common.py), reference decoder. Exhaustive for lengths 1-2 only.',
    'exhaustive small-scope enumeration + Hypothesis search against mode predicates', 'DESIGN.md 4/C07')
chk('C13', 'exploration',
    'Contents are steered so that every reachable (symbol class x residue x distance-to-capacity) cell is hit; the data bits after the last decoded segment are compared bit by bit with an ISO 7.4.9/7.4.10 tail model, remainder bits must be zero. One known finding (K1) is matched by an exact tail model and reported, everything else is a violation.',
    'Trusted: iso_tail model and decoder in vlib/qrref.py (the grids printed in the standard reproduce bit-exactly). Sampled over contents; the cell table is in the evidence.',
    'steered enumeration + Hypothesis search (+ atheris coverage-guided fuzzing in the thorough tier), tail compared with an ISO model', 'DESIGN.md 4/C13')
chk('C08', 'exploration',
    'Generated contents of nine classes and lengths from 1 character to 16 symbols x version or symbol_count x level x boost x mask x encoding: every returned symbol is checked structurally (C02), by syndromes (C03) and decoded; header position/total/parity, the concatenated payload and the symbol count / version promises are compared with the statement; refusals are judged by a per-symbol capacity model. One known finding (K3, 16-symbol limit of the version path) is matched narrowly.',
    'Trusted: reference decoder, capacity model. Sampled; per-symbol boundary lengths for versions 1-4 (1-10 thorough) enumerated.',
    'Hypothesis search + boundary enumeration, reassembly through an independent reference decoder', 'DESIGN.md 4/C08')
chk('C09', 'exploration',
    'Generated symbol x kind x scale x border x colour x option combinations are written by segno and parsed by independent readers (PNG chunks/CRC/filters/palette, Netpbm, XBM, XPM, text, ANSI, half-block terminal); every pixel / cell is compared with the module grid including the quiet zone; scale < 1 must be refused. The colour combinations which select PAM tuple types / PNG colour types are enumerated.',
    'Trusted: vlib/raster.py readers (self-tested on hand-written files), vlib/colors.py. Sampled; large images are limited to ~520 pixels wide.',
    'Hypothesis search, output parsed by independent format readers and compared pixel by pixel', 'DESIGN.md 4/C09')
chk('C10', 'exploration',
    'Generated symbol x kind x integer/fractional scale x border x colour x SVG/TeX/PDF option combinations are written by segno and interpreted by independent SVG / PostScript / PDF / PGF interpreters with exact Fractions; the painted unit squares must equal the dark modules (once each, nothing outside), page size, colours, background coverage, PDF /Length and xref offsets are checked. A grid of 29 scales x light on/off x 4 kinds is enumerated.',
    'Trusted: vlib/vector.py interpreters (self-tested on hand-written documents); tolerance 1e-6 for printed floats.',
    'Hypothesis search, documents interpreted and rasterised on the module grid by independent readers', 'DESIGN.md 4/C10')
chk('C11', 'exploration',
    'Every value yielded by matrix_iter (plain and verbose) for all 44 symbol sizes x borders x scales is compared with the module value / the type the ISO function-pattern map assigns to the position (exhaustive over positions); invalid borders / scales must raise ValueError; colourful PNG / SVG / PPM outputs with generated subsets of the 15 per-type colour options are parsed and every cell is compared with the colour configured for the type of its module. One known finding (K2) is matched at exactly one coordinate.',
    'Trusted: function-pattern map of vlib/qrref.py, raster/vector readers. Positions exhaustive; colour option subsets sampled.',
    'exhaustive enumeration of module positions + Hypothesis search over colour maps, outputs parsed by independent readers', 'DESIGN.md 4/C11')
chk('C12', 'exploration',
    'For generated symbols, kinds and option sets the document is produced through every route (stream+kind, file name, data URIs, svg_inline, svgz, in-process CLI with generated argv, CLI stdout vs terminal(), QRCodeSequence.save) and the results are compared byte by byte after masking the three timestamp fields; sequence file names and contents and unknown extensions are checked; outputs are parsed by the readers of their kind.',
    'Differential between routes; the documented apostrophe substitution of SVG data URIs is undone by an own tokenizer; sampled.',
    'Hypothesis search, differential comparison of output routes', 'DESIGN.md 4/C12')
chk('C14', 'exploration',
    'The documented argument domains of the four factories, including boundary and malformed values and every documented exclusion, are generated / enumerated; outcomes other than a valid symbol (C01-C03 checks), ValueError or LookupError (unknown codec) are bucketed by exception type and innermost segno frame. A metamorphic spelling relation (letter case, numeric strings) must give identical symbols. Every output kind x malformed colour / scale / border / kind value is enumerated and must raise ValueError. The CLI is run in-process: status 0 only with a parsable output, refusals of make as exit status 1 with the library message. A 120 s watchdog per case detects endless loops.',
    'Domain = documented argument types (wrong types are not generated). Sampled, with enumerated grids for exclusions and serializer validation.',
    'Hypothesis search + enumeration (+ atheris coverage-guided fuzzing of the factories in the thorough tier) with exception-type contract, metamorphic spelling relation, CLI exit contract', 'DESIGN.md 4/C14')
chk('C16', 'exploration',
    'Field values weighted towards delimiters, escapes and line breaks are generated for the WIFI, MeCard, vCard, geo, mailto and EPC factories; the payloads are parsed back by own parsers (unescaped-; splitting, vCard line structure, URI grammars, EPC069-12 line layout with Decimal equality and the 331 byte / length limits); every second case also builds the symbol with the make_* factory and decodes it with the reference decoder (EPC: level M, version <= 13).',
    'Trusted: parsers in vlib/props/c16.py, reference decoder. Sampled.',
    'Hypothesis search with round-trip parsers for every helper payload format', 'DESIGN.md 4/C16')
chk('C15', 'exploration',
    'Call histories are generated with a Hypothesis rule-based state machine and executed in one child process per history; every result is compared with the answer of a pristine process (fresh fork executing only that call), live symbols are compared with their snapshots, arguments with copies and the module-level lookup tables with their import-time hash after every step; re-encoding with the reported version/level/mask must reproduce the matrix. Thread interleavings are generated as explicit schedules (thread, number of segno lines) executed by a harness-owned scheduler (sys.settrace + baton), results compared with the single-threaded answers.',
    'Baseline = same code in a pristine process (history / schedule independence only). Interleavings are line-granular under the GIL; OS-level schedules only in the thorough best-effort phase.',
    'Hypothesis stateful testing (RuleBasedStateMachine) + generated deterministic thread schedules against a pristine-process oracle', 'DESIGN.md 4/C15')
