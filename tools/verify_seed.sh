#!/bin/bash
# usage: verify_seed.sh <PROP> <N> <name>   -- confirms a sub-agent's mutant in a scratch worktree and files it under /verif/seeded/<name>
P=$1; N=$2; NAME=$3
SRC=${SEED_SRC:-/tmp/seeded_out}/$P
WT=/tmp/wt/verify_$NAME
git -C /repo worktree add --detach $WT HEAD >/dev/null 2>&1 || { echo "cannot create worktree"; exit 2; }
cd $WT
PYTHONPATH=$WT /venv/bin/python $SRC/demo$N.py > /tmp/verify_$NAME.clean.log 2>&1; rc_clean=$?
git apply $SRC/mutant$N.diff || { echo "patch does not apply"; git -C /repo worktree remove --force $WT; exit 2; }
PYTHONPATH=$WT /venv/bin/python $SRC/demo$N.py > /tmp/verify_$NAME.mut.log 2>&1; rc_mut=$?
tests=$(/venv/bin/python -m pytest -q -p no:cacheprovider -n 6 --timeout=900 2>&1 | grep -E "passed|failed" | tail -1)
cd /verif
git -C /repo worktree remove --force $WT
echo "$NAME demo clean rc=$rc_clean mutated rc=$rc_mut tests: $tests"
if [ $rc_clean -eq 0 ] && [ $rc_mut -ne 0 ] && [[ "$tests" == *"1576 passed"* ]] && [[ "$tests" != *failed* ]]; then
  mkdir -p /verif/seeded/$NAME
  cp $SRC/mutant$N.diff /verif/seeded/$NAME/patch.diff
  cp $SRC/demo$N.py /verif/seeded/$NAME/demo.py
  /venv/bin/python - <<PY
import json
m=json.load(open('$SRC/meta$N.json'))
m['confirmed']={'demo_exit_unchanged':$rc_clean,'demo_exit_with_change':$rc_mut,'test_suite_with_change':'''$tests''',
 'how':'tools/verify_seed.sh: scratch worktree of /repo HEAD, demo run before and after git apply, repository test-suite run with the change'}
json.dump(m,open('/verif/seeded/$NAME/meta.json','w'),indent=1)
PY
  echo "KEPT $NAME"
else
  echo "REJECTED $NAME"
fi
