#!/bin/bash
# For every repaired defect listed in known_findings.json (status "fixed"): revert the fix commit in a scratch worktree and run
# the quick check of each property the entry names.  Writes seeded/REVERTS.md.  rc=1 = the original defect is reported again.
cd /verif
out=seeded/REVERTS.md
/venv/bin/python - > /tmp/revert_list.txt <<'PY'
import json
seen = {}
for e in json.load(open('/verif/known_findings.json')):
    if e.get('status') == 'fixed':
        seen.setdefault((e['id'], e['commit']), []).append(e['property'])
for (fid, commit), props in seen.items():
    print(fid, commit, ' '.join(sorted(set(props))))
PY
{
echo "# Reverting each repaired defect"
echo
echo "Produced by tools/revert_results.sh: the fix commit is reverse-applied in a scratch worktree of /repo HEAD and the quick checks of"
echo "the properties named in known_findings.json are run against it (--repo). rc=1 = the defect is reported again."
echo
echo "| id | commit | subject | check | result | signatures |"
echo "|---|---|---|---|---|---|"
while read fid commit props; do
  subject=$(git -C /repo log -1 --format=%s $commit | cut -c1-110 | tr '|' '/')
  WT=/tmp/wt/revert_$fid
  git -C /repo worktree remove --force $WT >/dev/null 2>&1
  git -C /repo worktree add --detach $WT HEAD >/dev/null 2>&1
  if ! git -C /repo show $commit | git -C $WT apply -R --3way >/dev/null 2>&1; then
    echo "| $fid | $commit | $subject | - | cannot be reverted on HEAD (later fixes touch the same lines) | |"
    git -C /repo worktree remove --force $WT >/dev/null 2>&1
    continue
  fi
  mkdir -p /tmp/seedout/revert_$fid
  for c in $props; do
    t0=$(date +%s); VERIF_OUT=/tmp/seedout/revert_$fid timeout 3000 ./check $c --tier quick --repo $WT > /tmp/seedout/revert_$fid/$c.log 2>&1; rc=$?; t1=$(date +%s)
    sigs=$(grep 'signature=' /tmp/seedout/revert_$fid/$c.log | sed 's/ *signature=//' | cut -d' ' -f1 | sort -u | head -4 | tr '\n' ' ')
    res="NOT REPORTED"; [ $rc -eq 1 ] && res="reported again ($((t1-t0))s)"; [ $rc -eq 2 ] && res="harness problem"
    echo "| $fid | $commit | $subject | $c | $res | $sigs |"
  done
  git -C /repo worktree remove --force $WT >/dev/null 2>&1
done < /tmp/revert_list.txt
} > $out.tmp
mv $out.tmp $out
