#!/bin/bash
# usage: runall.sh [tier] [seed]   runs every registered check once, prints one line per check
tier=${1:-quick}; seed=${2:-1}
cd /verif
for c in C01 C02 C03 C04 C05 C06 C07 C08 C09 C10 C11 C12 C13 C14 C15 C16; do
  t0=$(date +%s); VERIF_SEED=$seed ./check $c --tier $tier > /tmp/runall_$c.log 2>&1; rc=$?; t1=$(date +%s)
  echo "$c rc=$rc $((t1-t0))s $(grep -c '^VIOLATION' /tmp/runall_$c.log) violations $(grep -c '^KNOWN-FINDING' /tmp/runall_$c.log) known | $(tail -1 /tmp/runall_$c.log | cut -c1-120)"
done
