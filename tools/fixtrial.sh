#!/bin/bash
# usage: fixtrial.sh  -> runs the repository's own test-suite on /repo's working tree
cd /repo && /venv/bin/python -m pytest -q -p no:cacheprovider -n 8 -x 2>&1 | grep -v WARNING | tail -5
