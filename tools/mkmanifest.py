#!/venv/bin/python
"""Writes MANIFEST.json from the table below (so that it stays valid and in sync)."""
import json, os, subprocess
HERE = os.path.dirname(os.path.dirname(os.path.abspath(__file__)))
props = [json.loads(l) for l in open(os.path.join(HERE, 'properties.jsonl'))]
ids = [p['id'] for p in props]
CHECKS = {}
def chk(pid, level, text, note, technique, design_ref):
    CHECKS[pid] = dict(property_id=pid, quick_cmd='./check %s --tier quick' % pid,
                       thorough_cmd='./check %s --tier thorough' % pid,
                       evidence_file='evidence/%s.json' % pid,
                       replay_cmd_template='./check %s --replay {path}' % pid, engine='pbt',
                       level_claimed=dict(category=level, text=text, design_ref=design_ref),
                       level_note=note, technique=technique)
exec(open(os.path.join(HERE, 'tools', 'manifest_checks.py')).read())
fix_commits = subprocess.run(['git', '-C', '/repo', 'log', '--format=%h %s', 'ac167e2..HEAD'], capture_output=True, text=True).stdout.strip().split('\n')
m = dict(version=1, setup_cmd='./setup.sh',
         hooks=dict(guard='SEGNO_VERIF', enable='no hooks are needed: every property is observable through the public API, the returned matrix and the written bytes',
                    baseline_off_cmd='cd /repo && /venv/bin/python -m pytest -q -p no:cacheprovider --timeout=900',
                    source_commits=[], add_only=True),
         engines=[dict(name='pbt', path='check', serves_properties=sorted(CHECKS),
                       kind_free_text='Hypothesis strategies / stateful machines + exhaustive enumeration of small finite domains + atheris (libFuzzer) coverage-guided phase in the thorough tier of C01-C08, C13, C14, sharded over 16 processes; oracles: ISO 18004 reference decoder (vlib/qrref.py), independent format readers (vlib/raster.py, vlib/vector.py), payload parsers')],
         checks=[CHECKS[i] for i in ids if i in CHECKS],
         not_applicable=[dict(property_id=i, reason=NA.get(i, 'check not built yet (work in progress)')) for i in ids if i not in CHECKS],
         notes='Genuine defects repaired in /repo as "fix:" commits (see known_findings.json, status "fixed"): ' + '; '.join(fix_commits))
json.dump(m, open(os.path.join(os.environ.get('MANIFEST_DIR', HERE), 'MANIFEST.json'), 'w'), indent=1)
print('checks:', sorted(CHECKS), 'n/a:', [x['property_id'] for x in m['not_applicable']])
