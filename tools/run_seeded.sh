#!/bin/bash
# usage: run_seeded.sh <name> [CHECK...]
# Applies seeded/<name>/patch.diff in a scratch worktree of /repo's HEAD (outside /repo and /verif), runs the
# checks against it with --repo (default: the property of the mutant), removes the worktree.  Evidence and
# replay files of these runs go to /tmp/seedout/<name>, not to /verif.
name=$1; shift
checks="$@"; [ -z "$checks" ] && checks=${name%%-*}
WT=/tmp/wt/seedrun${VERIF_SEED:-}_$name
git -C /repo worktree remove --force $WT >/dev/null 2>&1
git -C /repo worktree add --detach $WT HEAD >/dev/null 2>&1 || { echo "cannot create worktree"; exit 2; }
git -C $WT apply /verif/seeded/$name/patch.diff || { git -C /repo worktree remove --force $WT; exit 2; }
SO=${SEEDOUT:-/tmp/seedout}; mkdir -p $SO/$name
for c in $checks; do
  cd /verif; t0=$(date +%s); VERIF_OUT=$SO/$name timeout ${SEED_TIMEOUT:-3000} ./check $c --tier ${TIER:-quick} --repo $WT > $SO/$name/$c.log 2>&1; rc=$?; t1=$(date +%s)
  echo "$name $c tier=${TIER:-quick} rc=$rc time=$((t1-t0))s sigs: $(grep 'signature=' $SO/$name/$c.log | sed 's/ *signature=//' | cut -d' ' -f1 | sort -u | head -6 | tr '\n' ' ')"
done
git -C /repo worktree remove --force $WT
