#!/bin/bash
# usage: sens.sh <patchfile | rev:<commit>> <CHECK>...   applies the change to /repo, runs the quick checks, restores /repo
src=$1; shift
cd /repo || exit 2
git diff --quiet || { echo "/repo is dirty"; exit 2; }
if [[ $src == rev:* ]]; then git show ${src#rev:} | git apply -R || exit 2; else git apply "$src" || exit 2; fi
for c in "$@"; do
  (cd /verif && VERIF_OUT=/tmp/sensout timeout 1500 ./check $c --tier ${TIER:-quick} > /tmp/sens_$c.log 2>&1; rc=$?; echo "$c rc=$rc $(grep -c '^VIOLATION' /tmp/sens_$c.log) violations: $(grep 'signature=' /tmp/sens_$c.log | head -3 | cut -c1-160 | tr '\n' '|')")
done
git -C /repo checkout -- .
