import sys
def rep(path, old, new, count=1):
    s=open(path).read()
    assert s.count(old)>=1, (path, old[:40])
    if count: assert s.count(old)==count, (path, old[:40], s.count(old))
    s=s.replace(old,new)
    open(path,'w').write(s)
