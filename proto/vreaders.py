"""Independent readers for the vector formats (scratch).

Every reader returns a dict:
  page: (width, height) in output units
  scale: factor from module units to page units declared by the document itself
  segments: list of (colour, x1, y, x2, linewidth) in *module units*, y measured from the top
  background: colour or None;  bg_rect: (x, y, w, h) in module units covered by the background
"""
import re
import zlib
import xml.etree.ElementTree as ET
from fractions import Fraction as F


class FormatError(Exception):
    pass


_NUM = r'[-+]?(?:\d+\.?\d*|\.\d+)(?:[eE][-+]?\d+)?'


def num(s):
    try:
        return F(s)
    except (ValueError, ZeroDivisionError):
        raise FormatError('bad number %r' % (s,))


# ------------------------------------------------------------------ SVG
_PATH_TOK = re.compile(r'([MmhvzZ])|(%s)' % _NUM)


def parse_svg_path(d):
    """Returns (segments [(x1, y, x2)], closed_polygons [[(x, y), ...]]) in path units.
    Supports M m h v z (all segno emits); anything else raises."""
    toks = []
    pos = 0
    d = d.strip()
    while pos < len(d):
        if d[pos] in ' ,\t\r\n':
            pos += 1
            continue
        m = _PATH_TOK.match(d, pos)
        if not m:
            raise FormatError('unsupported path data at %d: %r' % (pos, d[pos:pos + 10]))
        toks.append(m.group(0))
        pos = m.end()
    segs, polys = [], []
    x = y = F(0)
    sx = sy = F(0)
    cur = None
    i = 0
    cmd = None

    def take():
        nonlocal i
        if i >= len(toks) or toks[i] in 'MmhvzZ':
            raise FormatError('path argument missing')
        v = num(toks[i])
        i += 1
        return v
    while i < len(toks):
        if toks[i] in 'MmhvzZ':
            cmd = toks[i]
            i += 1
            fresh = True
        else:
            if cmd is None:
                raise FormatError('path does not start with a command')
            if cmd in 'MmzZ':
                raise FormatError('implicit lineto / stray number is not expected')
            fresh = False
        if cmd in 'Mm':
            a, b = take(), take()
            if cmd == 'M':
                x, y = a, b
            else:
                x, y = x + a, y + b
            sx, sy = x, y
            cur = [(x, y)]
        elif cmd == 'h':
            a = take()
            if cur is None:
                raise FormatError('h before moveto')
            segs.append((x, y, x + a, len(polys)))
            x += a
            cur.append((x, y))
        elif cmd == 'v':
            a = take()
            if cur is None:
                raise FormatError('v before moveto')
            y += a
            cur.append((x, y))
            segs.append(None)
        elif cmd in 'zZ':
            if cur is None:
                raise FormatError('z before moveto')
            polys.append(cur)
            x, y = sx, sy
            cur = [(x, y)]
    return segs, polys


def _svg_color(el, attr):
    v = el.get(attr)
    if v is None:
        return None
    op = el.get(attr + '-opacity')
    return (v, op) if op is not None else v


def read_svg(data, encoding='utf-8'):
    try:
        root = ET.fromstring(data)
    except ET.ParseError as ex:
        raise FormatError('XML: %s' % ex)
    tag = root.tag
    ns = ''
    if tag.startswith('{'):
        ns, tag = tag[1:].split('}')
    if tag != 'svg':
        raise FormatError('root element is %r' % tag)
    res = dict(ns=ns, attrib=dict(root.attrib), title=None, desc=None)
    w, h, vb = root.get('width'), root.get('height'), root.get('viewBox')
    unit = ''
    if w is not None:
        m = re.fullmatch(r'(%s)(.*)' % _NUM, w)
        m2 = re.fullmatch(r'(%s)(.*)' % _NUM, h or '')
        if not m or not m2:
            raise FormatError('bad width/height')
        res['size'] = (num(m.group(1)), num(m2.group(1)))
        unit = m.group(2)
        if m2.group(2) != unit:
            raise FormatError('width/height units differ')
    res['unit'] = unit
    if vb is not None:
        parts = vb.split()
        if len(parts) != 4:
            raise FormatError('bad viewBox')
        res['viewbox'] = tuple(num(p) for p in parts)
    if 'size' not in res and 'viewbox' not in res:
        raise FormatError('neither size nor viewBox')
    if 'viewbox' in res:
        if res['viewbox'][:2] != (0, 0):
            raise FormatError('viewBox origin')
        page = res['viewbox'][2:]
    else:
        page = res['size']
    res['page'] = page
    q = (lambda t: '{%s}%s' % (ns, t)) if ns else (lambda t: t)
    segments = []
    backgrounds = []
    order = []

    def transform_of(el):
        t = el.get('transform')
        if t is None:
            return F(1)
        m = re.fullmatch(r'scale\((%s)\)' % _NUM, t)
        if not m:
            raise FormatError('unsupported transform %r' % t)
        return num(m.group(1))

    def handle_path(el, scale):
        scale = scale * transform_of(el)
        d = el.get('d')
        if d is None:
            raise FormatError('path without d')
        segs, polys = parse_svg_path(d)
        stroke = _svg_color(el, 'stroke')
        fill = _svg_color(el, 'fill')
        if polys:
            if len(polys) != 1 or fill is None:
                raise FormatError('closed path without fill / several sub paths')
            pts = polys[0]
            xs = [p[0] for p in pts]
            ys = [p[1] for p in pts]
            rect = (min(xs), min(ys), max(xs) - min(xs), max(ys) - min(ys))
            # must be an axis parallel rectangle
            if len(set(pts)) != 4 or any(p[0] not in (min(xs), max(xs)) or p[1] not in (min(ys), max(ys)) for p in pts):
                raise FormatError('background is not a rectangle')
            backgrounds.append((fill, tuple(v for v in rect), scale, len(order)))
            order.append('bg')
            return
        if fill is not None:
            raise FormatError('open path with fill')
        for s in segs:
            if s is None:
                raise FormatError('vertical move in stroke path')
            x1, y, x2, _ = s
            segments.append((stroke, x1, y, x2, F(1), scale))
        order.append('path')
        res.setdefault('path_classes', []).append(el.get('class'))

    for el in root:
        t = el.tag.split('}')[-1]
        if t == 'title':
            res['title'] = el.text or ''
        elif t == 'desc':
            res['desc'] = el.text or ''
        elif t == 'path':
            handle_path(el, F(1))
        elif t == 'g':
            sc = transform_of(el)
            for sub in el:
                if sub.tag.split('}')[-1] != 'path':
                    raise FormatError('unexpected element in group')
                handle_path(sub, sc)
        else:
            raise FormatError('unexpected element %r' % t)
    res['segments'] = segments
    res['backgrounds'] = backgrounds
    res['order'] = order
    return res


# ------------------------------------------------------------------ EPS
def read_eps(text):
    lines = text.split('\n')
    if lines[0] != '%!PS-Adobe-3.0 EPSF-3.0':
        raise FormatError('EPS header')
    if any(len(ln) > 255 for ln in lines):
        raise FormatError('EPS line longer than 255 chars')
    if lines[-1] != '' or lines[-2] != '%%EOF':
        raise FormatError('EPS trailer')
    bbox = None
    body = []
    for ln in lines[1:-2]:
        if ln.startswith('%%BoundingBox:'):
            parts = ln.split(':', 1)[1].split()
            if len(parts) != 4:
                raise FormatError('BoundingBox')
            bbox = tuple(num(p) for p in parts)
        elif ln.startswith('%'):
            continue
        else:
            body.append(ln)
    if bbox is None or bbox[:2] != (0, 0):
        raise FormatError('BoundingBox missing / origin')
    toks = ' '.join(body).split()
    # tiny PostScript interpreter for the operators segno uses
    stack = []
    defs = {}
    scale = F(1)
    color = (F(0), F(0), F(0))
    bg = None
    segs = []
    cur = None
    i = 0
    stroked = False
    path = []

    def run(tok):
        nonlocal scale, color, bg, cur, stroked, path
        if re.fullmatch(_NUM, tok):
            stack.append(num(tok))
        elif tok == 'setrgbcolor':
            b = stack.pop(); g = stack.pop(); r = stack.pop()
            color = (r, g, b)
        elif tok == 'clippath':
            path = 'clip'
        elif tok == 'fill':
            if path != 'clip':
                raise FormatError('fill of non clip path')
            bg = color
            path = []
        elif tok == 'scale':
            sy = stack.pop(); sx = stack.pop()
            if sx != sy:
                raise FormatError('anisotropic scale')
            scale *= sx
        elif tok == 'newpath':
            path = []
            cur = None
        elif tok == 'moveto':
            y = stack.pop(); x = stack.pop()
            cur = (x, y)
        elif tok == 'rmoveto':
            dy = stack.pop(); dx = stack.pop()
            if cur is None:
                raise FormatError('rmoveto without current point')
            cur = (cur[0] + dx, cur[1] + dy)
        elif tok == 'rlineto':
            dy = stack.pop(); dx = stack.pop()
            if cur is None:
                raise FormatError('rlineto without current point')
            if dy != 0:
                raise FormatError('non horizontal line')
            path.append((cur[0], cur[1], cur[0] + dx))
            cur = (cur[0] + dx, cur[1])
        elif tok == 'stroke':
            for (x1, y, x2) in path:
                segs.append((color, x1, y, x2, F(1)))
            path = []
            stroked = True
        elif tok in defs:
            for t in defs[tok]:
                run(t)
        else:
            raise FormatError('unknown PS operator %r' % tok)
    while i < len(toks):
        tok = toks[i]
        if tok.startswith('/'):
            # /name { ... } bind def
            name = tok[1:]
            if toks[i + 1] != '{':
                raise FormatError('def syntax')
            j = toks.index('}', i)
            proc = toks[i + 2:j]
            if toks[j + 1:j + 3] != ['bind', 'def']:
                raise FormatError('def syntax')
            defs[name] = proc
            i = j + 3
            continue
        try:
            run(tok)
        except IndexError:
            raise FormatError('PS stack underflow at %r' % tok)
        i += 1
    if stack:
        raise FormatError('PS stack not empty')
    if not stroked:
        raise FormatError('no stroke')
    return dict(page=bbox[2:], scale=scale, segments_up=segs, background=bg)


# ------------------------------------------------------------------ PDF
def read_pdf(data):
    if not data.startswith(b'%PDF-1.'):
        raise FormatError('PDF header')
    if not data.rstrip(b'\r\n').endswith(b'%%EOF'):
        raise FormatError('PDF EOF marker')
    m = re.search(rb'startxref\r?\n(\d+)\r?\n%%EOF\s*\Z', data)
    if not m:
        raise FormatError('startxref')
    xpos = int(m.group(1))
    if data[xpos:xpos + 4] != b'xref':
        raise FormatError('startxref does not point to xref')
    m2 = re.match(rb'xref\r?\n(\d+) (\d+)\r?\n', data[xpos:])
    if not m2:
        raise FormatError('xref header')
    first, count = int(m2.group(1)), int(m2.group(2))
    p = xpos + m2.end()
    entries = []
    for k in range(count):
        ent = data[p:p + 20]
        mm = re.fullmatch(rb'(\d{10}) (\d{5}) ([nf])(?: \r| \n|\r\n)', ent)
        if not mm:
            raise FormatError('xref entry %d malformed: %r' % (k, ent))
        entries.append((int(mm.group(1)), int(mm.group(2)), mm.group(3)))
        p += 20
    tr = re.match(rb'trailer\s*<<(.*?)>>', data[p:], re.S)
    if not tr:
        raise FormatError('trailer')
    size = re.search(rb'/Size (\d+)', tr.group(1))
    rootref = re.search(rb'/Root (\d+) (\d+) R', tr.group(1))
    if not size or not rootref:
        raise FormatError('trailer keys')
    # objects actually defined in the file
    defined = {}
    for mo in re.finditer(rb'(?:(?<=[\r\n])|\A)(\d+) (\d+) obj\b', data):
        defined[int(mo.group(1))] = mo.start()
    xref_ok = {}
    for idx, (off, gen, kind) in enumerate(entries):
        objno = first + idx
        if kind == b'n' and objno in defined:
            xref_ok[objno] = (off == defined[objno])
    for objno in defined:
        if not (first <= objno < first + count) or entries[objno - first][2] != b'n':
            xref_ok[objno] = False

    def obj(no):
        if no not in defined:
            raise FormatError('object %d not defined' % no)
        start = defined[no]
        end = data.find(b'endobj', start)
        if end < 0:
            raise FormatError('object %d not terminated' % no)
        return data[start:end]
    root = obj(int(rootref.group(1)))
    pages = re.search(rb'/Pages (\d+) \d+ R', root)
    if b'/Type /Catalog' not in root or not pages:
        raise FormatError('catalog')
    pagesobj = obj(int(pages.group(1)))
    kids = re.search(rb'/Kids \[(\d+) \d+ R\]', pagesobj)
    if not kids or b'/Count 1' not in pagesobj:
        raise FormatError('pages')
    page = obj(int(kids.group(1)))
    mb = re.search(rb'/MediaBox \[([^\]]*)\]', page)
    cont = re.search(rb'/Contents (\d+) \d+ R', page)
    if not mb or not cont:
        raise FormatError('page')
    box = tuple(num(t.decode()) for t in mb.group(1).split())
    if len(box) != 4 or box[:2] != (0, 0):
        raise FormatError('MediaBox')
    cobj = obj(int(cont.group(1)))
    ln = re.search(rb'/Length (\d+)', cobj)
    st = re.search(rb'stream\r?\n', cobj)
    if not ln or not st:
        raise FormatError('content stream')
    length = int(ln.group(1))
    sstart = defined[int(cont.group(1))] + st.end()
    raw = data[sstart:sstart + length]
    after = data[sstart + length:sstart + length + 20]
    length_ok = bool(re.match(rb'\r?\n?endstream', after))
    if b'/FlateDecode' in cobj:
        try:
            stream = zlib.decompress(raw)
        except zlib.error as ex:
            raise FormatError('stream: %s (declared /Length %d)' % (ex, length))
    else:
        stream = raw
    toks = stream.decode('ascii').split()
    stack = []
    ctm = (F(1), F(0), F(0), F(1), F(0), F(0))  # a b c d e f
    stroke = (F(0), F(0), F(0))
    fillc = (F(0), F(0), F(0))
    bg = None
    bg_rect = None
    rect = None
    cur = None
    path = []
    segs = []
    gstack = []

    def apply(pt):
        a, b, c, d, e, f = ctm
        return (a * pt[0] + c * pt[1] + e, b * pt[0] + d * pt[1] + f)
    for tok in toks:
        if re.fullmatch(_NUM, tok):
            stack.append(num(tok))
            continue
        try:
            if tok == 'cm':
                f_ = stack.pop(); e_ = stack.pop(); d_ = stack.pop(); c_ = stack.pop(); b_ = stack.pop(); a_ = stack.pop()
                a, b, c, d, e, f = ctm
                # new = M x CTM  (PDF: M is applied first)
                ctm = (a_ * a + b_ * c, a_ * b + b_ * d, c_ * a + d_ * c, c_ * b + d_ * d,
                       e_ * a + f_ * c + e, e_ * b + f_ * d + f)
            elif tok == 'rg':
                b = stack.pop(); g = stack.pop(); r = stack.pop(); fillc = (r, g, b)
            elif tok == 'RG':
                b = stack.pop(); g = stack.pop(); r = stack.pop(); stroke = (r, g, b)
            elif tok == 're':
                h = stack.pop(); w = stack.pop(); y = stack.pop(); x = stack.pop()
                p0 = apply((x, y)); p1 = apply((x + w, y + h))
                rect = (p0[0], p0[1], p1[0] - p0[0], p1[1] - p0[1])
            elif tok == 'f':
                if rect is None:
                    raise FormatError('f without path')
                bg = fillc; bg_rect = rect; rect = None
            elif tok == 'q':
                gstack.append((ctm, stroke, fillc))
            elif tok == 'Q':
                ctm, stroke, fillc = gstack.pop()
            elif tok == 'm':
                y = stack.pop(); x = stack.pop(); cur = (x, y)
            elif tok == 'l':
                y = stack.pop(); x = stack.pop()
                if cur is None:
                    raise FormatError('l without current point')
                p0 = apply(cur); p1 = apply((x, y))
                if p0[1] != p1[1]:
                    raise FormatError('non horizontal line')
                if ctm[1] != 0 or ctm[2] != 0 or ctm[0] != ctm[3]:
                    raise FormatError('unexpected CTM')
                path.append((p0[0], p0[1], p1[0], ctm[0]))
                cur = (x, y)
            elif tok == 'S':
                for (x1, y, x2, lw) in path:
                    segs.append((stroke, x1, y, x2, lw))
                path = []
            else:
                raise FormatError('unknown PDF operator %r' % tok)
        except IndexError:
            raise FormatError('PDF operand stack underflow at %r' % tok)
    if stack or path:
        raise FormatError('dangling operands / unpainted path')
    return dict(page=box[2:], segments_page=segs, background=bg, bg_rect=bg_rect,
                xref_ok=xref_ok, length_ok=length_ok, defined=sorted(defined))


# ------------------------------------------------------------------ TeX
def read_tex(text):
    lines = text.split('\n')
    res = dict(url=None, color=None)
    body = [ln for ln in lines if not ln.startswith('%')]
    joined = '\n'.join(body)
    m = re.fullmatch(r'(?:\\href\{(?P<url>[^}]*)\}\{)?\\begin\{pgfpicture\}\n'
                     r'  \\pgfsetlinewidth\{(?P<lw>%s)(?P<unit>[a-z]*)\}\n'
                     r'(?:  \\color\{(?P<color>[^}]*)\}\n)?'
                     r'(?P<path>(?:  \\pgfpath(?:moveto|lineto)\{\\pgfqpoint\{[^}]*\}\{[^}]*\}\}\n)*)'
                     r'  \\pgfusepath\{stroke\}\n'
                     r'\\end\{pgfpicture\}(?P<close>\}?)\n' % _NUM, joined)
    if not m:
        raise FormatError('TeX structure')
    if (m.group('url') is not None) != (m.group('close') == '}'):
        raise FormatError('TeX href braces')
    unit = m.group('unit')
    lw = num(m.group('lw'))
    segs = []
    cur = None
    for mm in re.finditer(r'\\pgfpath(moveto|lineto)\{\\pgfqpoint\{(%s)([a-z]*)\}\{(%s)([a-z]*)\}\}' % (_NUM, _NUM),
                          m.group('path')):
        if mm.group(3) != unit or mm.group(5) != unit:
            raise FormatError('TeX units differ')
        pt = (num(mm.group(2)), num(mm.group(4)))
        if mm.group(1) == 'moveto':
            cur = pt
        else:
            if cur is None or cur[1] != pt[1]:
                raise FormatError('TeX lineto')
            segs.append((cur[0], cur[1], pt[0]))
            cur = pt
    return dict(linewidth=lw, unit=unit, url=m.group('url'), color=m.group('color'), segments_down=segs)
