import sys
sys.path.insert(0,'/tmp/adeps')
import atheris
with atheris.instrument_imports(include=['segno']):
    import segno
def t(data):
    fdp=atheris.FuzzedDataProvider(data)
    s=fdp.ConsumeUnicodeNoSurrogates(20)
    try: segno.make(s, micro=fdp.ConsumeBool())
    except ValueError: pass
atheris.Setup(sys.argv, t)
atheris.Fuzz()
