import qrref as R, random, segno, collections, traceback, sys, codecs
rnd = random.Random(int(sys.argv[1])); N=int(sys.argv[2])
MODE={'numeric':1,'alphanumeric':2,'byte':4,'kanji':8,'hanzi':13}
def part():
    k=rnd.random(); n=rnd.choice([1,2,3,4,5,7,10])
    if k<0.25: return ''.join(rnd.choice('0123456789') for _ in range(n)), 'numeric'
    if k<0.45: return ''.join(rnd.choice(R.ALNUM) for _ in range(n)), 'alphanumeric'
    if k<0.6: return ''.join(rnd.choice('abcxyzé ü') for _ in range(n)), 'byte'
    if k<0.75: return ''.join(rnd.choice('点茗漢字') for _ in range(n)), 'kanji'
    if k<0.85: return ''.join(rnd.choice('aé€漢🙂') for _ in range(n)), 'byte'
    if k<0.92: return rnd.randrange(0,10**n), 'numeric'
    return bytes(rnd.randrange(256) for _ in range(n)), 'byte'
def exp_bytes(c, mode, enc):
    if isinstance(c,bytes): return c, enc or 'iso-8859-1'
    s=str(c)
    if mode==13: return s.encode('gb2312'),'gb2312'
    if enc: return s.encode(enc), enc
    for e in ('iso-8859-1','shift_jis','utf-8'):
        try: return s.encode(e), e
        except UnicodeError: pass
ECI={'cp437':{0,2},'iso8859-1':{1,3},'shift_jis':{20},'utf-8':{26},'utf-16-be':{25},'iso8859-15':{17},'cp1252':{23}}
cls=collections.Counter(); ex={}
def note(k,e): cls[k]+=1; ex.setdefault(k,e)
for it in range(N):
    parts=[]; 
    for _ in range(rnd.randint(2,5)):
        c,natural=part()
        r=rnd.random()
        if r<0.5: parts.append(c)
        elif r<0.7: parts.append((c,))
        elif r<0.85: parts.append((c, rnd.choice([None, MODE[natural], MODE['byte']])))
        else: parts.append((c, rnd.choice([None, MODE['byte']]), rnd.choice([None,'utf-8','iso-8859-1','shift_jis','cp437','utf-16-be'])))
    kw={}
    if rnd.random()<0.3: kw['eci']=True
    if rnd.random()<0.3: kw['micro']=rnd.choice([None,False,True])
    if rnd.random()<0.3: kw['error']=rnd.choice('LMQH')
    if rnd.random()<0.3: kw['encoding']=rnd.choice(['utf-8','iso-8859-1','shift_jis'])
    if rnd.random()<0.2: kw['mode']=rnd.choice(['byte',None])
    if rnd.random()<0.2: kw['version']=rnd.choice([1,2,5,10,27,'M3','M4'])
    try: q=segno.make(parts, **kw)
    except ValueError as e: note(('refused',),0); continue
    except Exception as e:
        tb=traceback.extract_tb(e.__traceback__)[-1]; note(('EXC',type(e).__name__,tb.name,tb.lineno),(parts,kw,str(e)[:50])); continue
    try: d=R.decode(q.matrix)
    except R.SymbolError as e: note(('UNDECODABLE',str(e)[:30]),(parts,kw,q.designator)); continue
    exp=b''; spans=[]
    try:
        for p in parts:
            c=p[0] if isinstance(p,tuple) else p
            m=(p[1] if isinstance(p,tuple) and len(p)>1 else None) or (MODE.get(kw.get('mode')) if kw.get('mode') else None)
            e=(p[2] if isinstance(p,tuple) and len(p)>2 else None) or kw.get('encoding')
            b,enc=exp_bytes(c,m,e); spans.append((len(exp),len(exp)+len(b),enc)); exp+=b
    except Exception as e: note(('expfail',type(e).__name__),(parts,kw)); continue
    got=b''.join(s['data'] for s in d['segments'])
    if got!=exp: note(('PAYLOAD',),(parts,kw,q.designator,got,exp)); continue
    # eci check
    off=0; bad=False
    for s in d['segments']:
        a,b_=off,off+len(s['data']); off=b_
        if s['mode']!='byte':
            continue
        for (x,y,enc) in spans:
            if x<b_ and y>a and y>x:
                name=codecs.lookup(enc).name
                if kw.get('eci') and name!='iso8859-1':
                    if s['eci'] not in ECI.get(name,{-1}): bad=('eci-missing/wrong',name,s['eci'])
                elif not kw.get('eci') and s['eci'] is not None: bad=('eci-unexpected',)
    if q.is_micro and any(s['eci'] is not None for s in d['segments']): bad=('eci-in-micro',)
    if bad: note(('ECI',)+tuple(bad),(parts,kw,q.designator,[(s['mode'],s['eci'],s['data']) for s in d['segments']])); continue
    note(('ok',len(d['segments'])),0)
for k,c in sorted(cls.items(), key=lambda x:str(x[0])): print(c,k,str(ex[k])[:500] if ex[k] else '')
