import segno, io, os, tempfile, gzip, base64, re, sys, contextlib
from urllib.parse import unquote
from segno import cli
q=segno.make('Hello routes', micro=False)
tmp=tempfile.mkdtemp(dir='/tmp/probe')
def norm(kind, data):
    if isinstance(data,str): data=data.encode()
    if kind=='eps': data=re.sub(rb'%%CreationDate: [^\n]*', b'%%CreationDate:', data)
    if kind=='pdf': data=re.sub(rb'/CreationDate\(D:[^)]*\)', b'/CreationDate()', data)
    if kind=='tex': data=re.sub(rb'% Date: [^\n]*', b'% Date:', data)
    return data
bin_kinds=('png','svg','pdf','pbm','pam','ppm')
res={}
for kind in ('svg','png','eps','txt','pdf','ans','pbm','pam','ppm','tex','xbm','xpm'):
    kw=dict(border=3)
    if kind not in('txt','ans'): kw['scale']=3
    # stream
    buf=io.BytesIO() if kind in bin_kinds else io.StringIO()
    q.save(buf, kind=kind, **kw); a=norm(kind, buf.getvalue())
    # upper-case kind
    buf=io.BytesIO() if kind in bin_kinds else io.StringIO()
    q.save(buf, kind=kind.upper(), **kw); a2=norm(kind, buf.getvalue())
    # filename
    fn=os.path.join(tmp,'out.'+kind); q.save(fn, **kw); b=norm(kind, open(fn,'rb').read())
    fn2=os.path.join(tmp,'out2.'+kind.upper()); q.save(fn2, **kw); b2=norm(kind, open(fn2,'rb').read())
    # CLI
    fn3=os.path.join(tmp,'cli.'+kind)
    args=['--no-micro','--border=3','-o',fn3,'Hello routes']
    if kind not in('txt','ans'): args.insert(0,'--scale=3')
    try:
        rc=cli.main(args); c=norm(kind, open(fn3,'rb').read())
    except SystemExit as e: c=b'EXIT %r'%e.code
    except Exception as e: c=('EXC %s %s'%(type(e).__name__,e)).encode()
    print(kind, a==a2, a==b, a==b2, a==c, '' if a==c else (c[:80], a[:80]))
# data uris
buf=io.BytesIO(); q.save(buf,kind='png',scale=2); 
u=q.png_data_uri(scale=2); print('png uri', base64.b64decode(u.split(',',1)[1])==buf.getvalue())
buf=io.BytesIO(); q.save(buf,kind='svg',scale=2,xmldecl=False,nl=False)
u=q.svg_data_uri(scale=2); dec=unquote(u.split(',',1)[1]); print('svg uri', dec==buf.getvalue().decode(), dec[:60], buf.getvalue()[:60])
print('inline', q.svg_inline(scale=2)== (lambda b:(q.save(b,kind='svg',scale=2,xmldecl=False,svgns=False,nl=False),b.getvalue().decode())[1])(io.BytesIO()))
fn=os.path.join(tmp,'o.svgz'); q.save(fn, scale=2); buf=io.BytesIO(); q.save(buf,kind='svg',scale=2); print('svgz', gzip.open(fn).read()==buf.getvalue())
# cli terminal
out=io.StringIO()
with contextlib.redirect_stdout(out): cli.main(['--no-micro','Hello routes'])
o2=io.StringIO(); q.terminal(o2); print('cli terminal', out.getvalue()==o2.getvalue())
out=io.StringIO()
with contextlib.redirect_stdout(out): cli.main(['--no-micro','--compact','Hello routes'])
o2=io.StringIO(); q.terminal(o2,compact=True); print('cli compact', out.getvalue()==o2.getvalue())
# sequence
seq=segno.make_sequence('Hello sequence route test 1234567890', version=1)
fn=os.path.join(tmp,'seq.svg'); seq.save(fn, scale=2); print(sorted(f for f in os.listdir(tmp) if f.startswith('seq')), len(seq))
try: q.save(os.path.join(tmp,'x.unknown'))
except Exception as e: print(type(e).__name__, e)
try: q.save(os.path.join(tmp,'noext'))
except Exception as e: print(type(e).__name__, e)
