import segno, random, sys, collections, traceback, io
rnd=random.Random(int(sys.argv[1])); N=int(sys.argv[2])
cls=collections.Counter(); ex={}
def note(k,e): cls[k]+=1; ex.setdefault(k,e)
contents=['', '0', '12', 'A', 'ab', 'é', '点', '点茗', '书', b'', b'\x93', b'\x93\x5f', b'\xff', 0, 7, -1, 10**20, 'a'*3000, '1'*8000, ' ', '\n', ['12','ab'], [('12','numeric'),('点','kanji')], [('ab',None,'utf-8')], [], ('a','b')]
versions=[None,1,2,40,41,0,-1,'1','40','41','m1','M1','M2','m3','M4','m5','M0','x','',1.5,'1.5',True, 7, 10, 27]
errors=[None,'l','L','m','M','q','Q','h','H','x','','-',1,0,2,3,4,'LL']
modes=[None,'numeric','alphanumeric','byte','kanji','hanzi','NUMERIC','Byte','eci','',1,2,4,8,13,3,7,0]
masks=[None,0,1,3,4,7,8,-1,'0','7','8','x','',1.5,True]
encs=[None,'utf-8','UTF-8','latin1','iso-8859-1','shift_jis','ascii','utf-16','utf-32','cp437','nope','', 'gb2312', 'idna', 'punycode']
for it in range(N):
    kw={}
    c=rnd.choice(contents)
    if rnd.random()<0.6: kw['version']=rnd.choice(versions)
    if rnd.random()<0.5: kw['error']=rnd.choice(errors)
    if rnd.random()<0.5: kw['mode']=rnd.choice(modes)
    if rnd.random()<0.4: kw['mask']=rnd.choice(masks)
    if rnd.random()<0.4: kw['encoding']=rnd.choice(encs)
    fn=rnd.choice(['make','make','make_qr','make_micro','make_sequence'])
    if fn in('make','make_qr') and rnd.random()<0.3: kw['eci']=rnd.choice([True,False])
    if fn=='make' and rnd.random()<0.4: kw['micro']=rnd.choice([None,True,False])
    if rnd.random()<0.3: kw['boost_error']=rnd.choice([True,False])
    if fn=='make_sequence' and rnd.random()<0.7: kw['symbol_count']=rnd.choice([None,0,1,2,16,17,-1,5])
    try:
        r=getattr(segno,fn)(c,**kw)
        if fn=='make_sequence': len(r)
        note(('ok',fn),0)
    except ValueError as e:
        note(('ValueError',fn),0)
    except LookupError as e:
        if type(e).__name__=='LookupError': note(('LookupError-codec',fn),(c,kw,str(e)))
        else: note(('EXC',fn,type(e).__name__,traceback.extract_tb(e.__traceback__)[-1].name,traceback.extract_tb(e.__traceback__)[-1].lineno),(c if len(str(c))<50 else str(c)[:20],kw,str(e)[:60]))
    except Exception as e:
        tb=traceback.extract_tb(e.__traceback__)[-1]
        note(('EXC',fn,type(e).__name__,tb.name,tb.lineno),(c if len(str(c))<50 else str(c)[:20],kw,str(e)[:60]))
for k,c in sorted(cls.items(), key=lambda x:str(x[0])): print(c,k,ex[k] if ex[k] else '')
