import qrref as R, random, segno, collections, traceback, sys
rnd = random.Random(int(sys.argv[1]) if len(sys.argv)>1 else 1)
ALNUM = R.ALNUM
def rand_text():
    k = rnd.random()
    n = rnd.choice([0,1,2,3,4,5,7,8,10,16,17,30,50,100,300])
    if k<0.2: return ''.join(rnd.choice('0123456789') for _ in range(n))
    if k<0.4: return ''.join(rnd.choice(ALNUM) for _ in range(n))
    if k<0.55: return ''.join(chr(rnd.randrange(32,256)) for _ in range(n))
    if k<0.7: return ''.join(rnd.choice('点茗漢字日本語ビートルズあいう') for _ in range(n))
    if k<0.8: return ''.join(rnd.choice('书读百遍其义自现汉字') for _ in range(n))
    if k<0.9: return ''.join(chr(rnd.choice([rnd.randrange(0x20,0x7f), rnd.randrange(0xa0,0x500), rnd.randrange(0x3040,0x30ff), rnd.randrange(0x4e00,0x9fff), rnd.randrange(0x1f300,0x1f600)])) for _ in range(n))
    return ''.join(chr(rnd.randrange(0,0x80)) for _ in range(n))
def rand_bytes():
    n = rnd.choice([0,1,2,3,4,6,8,16,33,100])
    k = rnd.random()
    if k<0.4: return bytes(rnd.randrange(256) for _ in range(n))
    if k<0.7: return bytes(b for _ in range(n//2) for b in (rnd.choice(list(range(0x81,0xa0))+list(range(0xe0,0xec))), rnd.randrange(256)))
    return bytes(rnd.randrange(0x30,0x3a) for _ in range(n))
def expected_bytes(content, mode, encoding):
    if isinstance(content, bytes): return content, (encoding or 'iso-8859-1')
    s = str(content)
    if mode=='hanzi': return s.encode('gb2312'), 'gb2312'
    if encoding: return s.encode(encoding), encoding
    for e in ('iso-8859-1','shift_jis','utf-8'):
        try: return s.encode(e), e
        except UnicodeError: pass
buckets = collections.Counter(); examples={}
N=int(sys.argv[2]) if len(sys.argv)>2 else 3000
ok=0; refused=0
for it in range(N):
    k=rnd.random()
    content = rand_text() if k<0.7 else rand_bytes() if k<0.9 else rnd.randrange(0,10**rnd.randint(1,30))
    kw={}
    if rnd.random()<0.3: kw['error']=rnd.choice([None,'L','M','Q','H','l','m'])
    if rnd.random()<0.3: kw['version']=rnd.choice(list(R.ALL_VERSIONS))
    if rnd.random()<0.3: kw['mode']=rnd.choice([None,'numeric','alphanumeric','byte','kanji','hanzi'])
    if rnd.random()<0.3: kw['mask']=rnd.randrange(0,8)
    if rnd.random()<0.3: kw['encoding']=rnd.choice([None,'utf-8','iso-8859-1','shift_jis','cp437','iso-8859-15','utf-16-be','gbk','cp1252','ascii','big5','euc_kr'])
    if rnd.random()<0.3: kw['eci']=rnd.choice([True,False])
    if rnd.random()<0.4: kw['micro']=rnd.choice([None,True,False])
    if rnd.random()<0.3: kw['boost_error']=rnd.choice([True,False])
    try:
        q = segno.make(content, **kw)
    except ValueError as ex:
        refused+=1; continue
    except Exception as ex:
        key=('EXC', type(ex).__name__, traceback.extract_tb(ex.__traceback__)[-1].name)
        buckets[key]+=1; examples.setdefault(key,(content,kw)); continue
    try:
        d = R.decode(q.matrix)
    except R.SymbolError as ex:
        key=('UNDECODABLE', str(ex)[:40]); buckets[key]+=1; examples.setdefault(key,(content,kw,q.designator)); continue
    try:
        exp, enc = expected_bytes(content, kw.get('mode'), kw.get('encoding'))
    except Exception as ex:
        key=('EXPECT-FAIL', type(ex).__name__); buckets[key]+=1; examples.setdefault(key,(content,kw,q.designator)); continue
    got = b''.join(s['data'] for s in d['segments'])
    if got!=exp:
        key=('PAYLOAD', q.mode, len(d['segments'])); buckets[key]+=1; examples.setdefault(key,(content,kw,q.designator,got[:20],exp[:20])); continue
    if d['structure_errors'] or not all(d['rs_ok']):
        key=('STRUCT',); buckets[key]+=1; examples.setdefault(key,(content,kw,q.designator)); continue
    # eci
    for s in d['segments']:
        if s['eci'] is not None and (q.is_micro or not kw.get('eci')):
            key=('ECI-UNEXPECTED', q.is_micro); buckets[key]+=1; examples.setdefault(key,(content,kw,q.designator))
    ok+=1
print('ok',ok,'refused',refused)
for k,c in buckets.most_common(): print(c,k,examples[k])
