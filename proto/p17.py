import random, sys, collections, re, decimal
from segno import helpers
from urllib.parse import unquote
rnd=random.Random(int(sys.argv[1])); N=int(sys.argv[2])
cls=collections.Counter(); ex={}
def note(k,e): cls[k]+=1; ex.setdefault(k,e)
AL=list(';:,\\"') + ['a','b','Z','1',' ','é','点','\;','\\\\','\n','\r\n','\r']
def val(nl=True, empty=0.1):
    if rnd.random()<empty: return ''
    return ''.join(rnd.choice(AL if nl else [c for c in AL if '\n' not in c and '\r' not in c]) for _ in range(rnd.randint(1,8)))
def split_fields(s):
    out=[]; cur=''; i=0
    while i<len(s):
        ch=s[i]
        if ch=='\\' and i+1<len(s): cur+=s[i:i+2]; i+=2; continue
        if ch==';': out.append(cur); cur=''; i+=1; continue
        cur+=ch; i+=1
    out.append(cur); return out
def unesc(s): return re.sub(r'\\(.)', r'\1', s, flags=re.S)
def multi(p=0.3):
    r=rnd.random()
    if r<0.3: return None
    if r<0.6: return val(nl=False, empty=0)
    return [val(nl=False, empty=0) for _ in range(rnd.randint(1,3))]
def aslist(v): return [] if not v else ([v] if isinstance(v,str) else list(v))
for it in range(N):
    t=rnd.choice(['wifi','mecard','vcard','email','geo','epc'])
    try:
        if t=='wifi':
            ssid=val(nl=False,empty=0); pw=rnd.choice([None,val(nl=False)]); sec=rnd.choice([None,'WEP','WPA','wpa','nopass']); hid=rnd.choice([True,False])
            s=helpers.make_wifi_data(ssid,pw,sec,hid)
            assert s.startswith('WIFI:')
            f=split_fields(s[5:])
            exp=[]
            if sec: exp.append('T:'+(sec.upper() if sec!='nopass' else sec))
            exp.append('S:'+ssid)
            if pw is not None: exp.append('P:'+pw)
            if hid: exp.append('H:true')
            exp+= ['',''] if not hid else ['']
            got=[x[:2]+unesc(x[2:]) if len(x)>1 and x[1]==':' else unesc(x) for x in f]
            if got!=exp: note(('WIFI',),(ssid,pw,sec,hid,s,got,exp)); continue
        elif t=='mecard':
            name=val(nl=False,empty=0)
            kw=dict(reading=rnd.choice([None,val(nl=False)]), email=multi(), phone=multi(), videophone=multi(), memo=rnd.choice([None,val(nl=False)]), nickname=rnd.choice([None,val(nl=False)]), birthday=rnd.choice([None,'19700131']), url=multi())
            adr=[rnd.choice([None,val(nl=False)]) for _ in range(7)]
            kw.update(dict(zip(('pobox','roomno','houseno','city','prefecture','zipcode','country'),adr)))
            s=helpers.make_mecard_data(name,**kw)
            assert s.startswith('MECARD:')
            f=split_fields(s[7:])
            exp=['N:'+name]
            if kw['reading']: exp.append('SOUND:'+kw['reading'])
            exp+=['TEL:'+v for v in aslist(kw['phone'])]+['TELAV:'+v for v in aslist(kw['videophone'])]+['EMAIL:'+v for v in aslist(kw['email'])]
            if kw['nickname']: exp.append('NICKNAME:'+kw['nickname'])
            if kw['birthday']: exp.append('BDAY:'+kw['birthday'])
            exp+=['URL:'+v for v in aslist(kw['url'])]
            if any(adr): exp.append('ADR:'+','.join(a or '' for a in adr))
            if kw['memo']: exp.append('MEMO:'+kw['memo'])
            exp+=['','']
            got=[]
            for x in f:
                k,sep,v=x.partition(':')
                got.append(k+sep+unesc(v) if sep else unesc(x))
            if got!=exp: note(('MECARD',),(name,kw,s,got,exp)); continue
        elif t=='vcard':
            name=val(); dn=val(empty=0)
            kw=dict(email=multi(), phone=multi(), memo=rnd.choice([None,val()]), nickname=rnd.choice([None,val()]), org=rnd.choice([None,val()]), url=multi(), title=multi(), city=rnd.choice([None,val()]), birthday=rnd.choice([None,'2000-01-31']))
            s=helpers.make_vcard_data(name,dn,**kw)
            lines=s.split('\r\n')
            n_exp=2+1+1+(1 if kw['org'] else 0)+len(aslist(kw['email']))+len(aslist(kw['phone']))+len(aslist(kw['url']))+len(aslist(kw['title']))+(1 if kw['nickname'] else 0)+(1 if kw['city'] else 0)+(1 if kw['birthday'] else 0)+(1 if kw['memo'] else 0)+1+1
            bad = len(lines)!=n_exp or any('\n' in l or '\r' in l for l in lines) or lines[0]!='BEGIN:VCARD' or lines[-2]!='END:VCARD' or lines[-1]!=''
            if bad:
                has_nl = any(('\n' in (v or '') or '\r' in (v or '')) for v in [name,dn,kw['memo'],kw['nickname'],kw['org'],kw['city']])
                note(('VCARD','nl' if has_nl else 'other'),(name,dn,kw,s)); continue
        elif t=='email':
            to=rnd.choice(['a@b.c',['a@b.c','d@e.f']]); cc=rnd.choice([None,'x@y.z',['x@y.z','u@v.w']]); bcc=rnd.choice([None,'q@r.s']); sub=rnd.choice([None,val()]); body=rnd.choice([None,val()])
            s=helpers.make_make_email_data(to,cc,bcc,sub,body)
            assert s.startswith('mailto:')
            rest=s[7:]
            addr,q,query=rest.partition('?')
            ok = addr==','.join(aslist(to)) and '&' not in addr
            params=[p.partition('=') for p in query.split('&')] if q else []
            exp=[]
            if cc: exp.append(('cc',','.join(aslist(cc))))
            if bcc: exp.append(('bcc',','.join(aslist(bcc))))
            if sub is not None: exp.append(('subject',sub))
            if body is not None: exp.append(('body',body))
            got=[(k,unquote(v)) for k,_,v in params]
            if not ok or got!=exp or re.search(r'[^A-Za-z0-9\-._~:/?#\[\]@!$&\'()*+,;=%]', s): note(('EMAIL', sub is None and body is not None and not cc and not bcc),(to,cc,bcc,sub,body,s)); continue
        elif t=='geo':
            lat=rnd.choice([0.0,-0.0,90,-90,rnd.uniform(-90,90),1e-9,round(rnd.uniform(-90,90),3)]); lng=rnd.choice([180,-180,rnd.uniform(-180,180),0])
            s=helpers.make_geo_data(lat,lng)
            m=re.fullmatch(r'geo:(-?\d+(?:\.\d+)?),(-?\d+(?:\.\d+)?)',s)
            if not m or abs(float(m.group(1))-lat)>0.6e-8 or abs(float(m.group(2))-lng)>0.6e-8: note(('GEO',),(lat,lng,s)); continue
        else:
            amt=decimal.Decimal(rnd.randint(1,99999999999))/100
            a=rnd.choice([amt,str(amt),float(amt) if amt<10**6 else amt, int(amt) if amt==int(amt) else amt])
            name=val(nl=False,empty=0).strip() or 'N'; text=(val(nl=False,empty=0).strip() or 't')
            enc=rnd.choice([None,None,1,2,'utf-8','ISO-8859-15',8])
            try:
                d=helpers._make_epc_qr_data(name,'DE89370400440532013000',a,text=text,encoding=enc)
            except ValueError as e:
                note(('epc-refused',type(e).__name__),(name,a,text,enc,str(e)[:50])); continue
            encs=('utf-8','iso-8859-1','iso-8859-2','iso-8859-4','iso-8859-5','iso-8859-7','iso-8859-10','iso-8859-15')
            cs=int(d.split(b'\n')[2]); txt=d.decode(encs[cs-1]); L=txt.split('\n')
            ok= L[0]=='BCD' and L[1]=='002' and L[3]=='SCT' and L[4]=='' and L[5]==name and L[6]=='DE89370400440532013000' and re.fullmatch(r'EUR\d+(\.\d{1,2})?',L[7]) and decimal.Decimal(L[7][3:])==amt and L[8]=='' and L[9]=='' and L[10]==text and len(L)==11 and len(d)<=331
            if not ok: note(('EPC',),(name,a,text,enc,d)); continue
        note(('ok',t),0)
    except AssertionError as e:
        note(('ASSERT',t),0)
for k,c in sorted(cls.items(), key=lambda x:str(x[0])): print(c,k,str(ex[k])[:400] if ex[k] else '')
