import qrref as R, segno, collections, sys, itertools
def payload_bits(mode, n):
    if mode=='numeric': return 10*(n//3) + (0,4,7)[n%3]
    if mode=='alphanumeric': return 11*(n//2) + 6*(n%2)
    if mode=='byte': return 8*n
    return 13*n
def need(v, mode, n, eci_hdr=False):
    cc = R.cci_bits(v, mode)
    if cc is None: return None
    if n >= (1<<cc): return None
    return R.mode_indicator_bits(v) + cc + payload_bits(mode,n) + (4 if mode=='hanzi' else 0) + (12 if eci_hdr else 0)
def ref_version(mode, n, lvl, micro, eci_hdr=False, eci=False):
    for v in R.ALL_VERSIONS:
        if R.is_micro(v) and (micro is False or eci): continue
        if not R.is_micro(v) and micro is True: continue
        if v=='M1' and lvl is not None: continue
        l = lvl
        if l is None and v!='M1': l='L'
        if l not in R.levels_of(v): continue
        nb = need(v, mode, n, eci_hdr)
        if nb is None: continue
        if nb <= R.data_capacity_bits(v, l): return v
    return None
def content(mode, n):
    if mode=='numeric': return '1'*n
    if mode=='alphanumeric': return 'A'*n
    if mode=='byte': return 'a'*n
    if mode=='kanji': return '点'*n
    return '书'*n
# boundaries: for each mode, level, micro: lengths n where ref_version(n)!=ref_version(n+1)
bad=collections.Counter(); ex={}
tot=0
for mode in ('numeric','alphanumeric','byte','kanji','hanzi'):
    maxn = {'numeric':7100,'alphanumeric':4300,'byte':2960,'kanji':1820,'hanzi':1820}[mode]
    for lvl in (None,'L','M','Q','H'):
        for micro in (None, True, False):
            prev = ref_version(mode, 1, lvl, micro)
            bnds=set([1,2])
            for n in range(2, maxn):
                cur = ref_version(mode, n, lvl, micro)
                if cur!=prev:
                    bnds.update((n-1,n))
                prev=cur
            for n in sorted(bnds):
                exp = ref_version(mode, n, lvl, micro)
                kw = dict(error=lvl, micro=micro, boost_error=False)
                if mode=='hanzi': kw['mode']='hanzi'
                tot+=1
                try:
                    q = segno.make(content(mode,n), **kw); got=q.version
                except ValueError as e:
                    got=None
                except Exception as e:
                    got='EXC '+type(e).__name__
                if got!=exp:
                    k=(mode,lvl,micro,'exp',exp,'got',got)
                    bad[(mode, 'exp-none' if exp is None else 'diff')]+=1; ex.setdefault((mode, 'exp-none' if exp is None else 'diff'), (n,k))
                elif got is not None:
                    d = R.decode(q.matrix)
                    data = b''.join(s['data'] for s in d['segments'])
                    e = content(mode,n).encode('gb2312' if mode=='hanzi' else 'shift_jis' if mode=='kanji' else 'ascii')
                    if data!=e: bad[(mode,'payload')]+=1; ex.setdefault((mode,'payload'),(n,lvl,micro,got))
print('checked',tot)
for k,c in bad.items(): print(c,k,ex[k])
