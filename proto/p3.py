import qrref as R, random, segno
rnd = random.Random(5)
# RS correction self-test
for n_ec in (2,5,6,7,8,10,13,14,15,16,17,18,20,22,24,26,28,30):
    for trial in range(30):
        k = rnd.randint(1, 120)
        data = [rnd.randrange(256) for _ in range(k)]
        cw = data + R.rs_encode(data, n_ec)
        assert not any(R.rs_syndromes(cw, n_ec))
        t = rnd.randint(0, n_ec//2)
        bad = list(cw)
        for p in rnd.sample(range(len(cw)), t):
            bad[p] ^= rnd.randrange(1,256)
        fixed = R.rs_correct(bad, n_ec)
        assert fixed == cw, (n_ec, t)
print('rs ok')
# all versions/levels decode
import string
cnt=0
for v in R.ALL_VERSIONS:
    for lvl in R.levels_of(v):
        for mask in range(R.n_masks(v)):
            q = segno.make('1', version=v, error=lvl, mask=mask, boost_error=False)
            d = R.decode(q.matrix)
            assert not d['structure_errors'], (v,lvl,mask,d['structure_errors'][:5])
            assert all(d['rs_ok']), (v,lvl,mask)
            assert (d['level'], d['mask']) == (lvl, mask)
            assert d['segments'][0]['data']==b'1'
            assert all(h==0 for h,_ in d['format_decoded'])
            if 'version_words' in d:
                assert d['version_words']==(R.golay18_6(v),)*2
            assert not any(d['remainder'])
            cnt+=1
print('all', cnt)
