import qrref as R, segno, random, sys, collections, traceback
from functools import reduce
rnd=random.Random(int(sys.argv[1])); N=int(sys.argv[2])
def expected_bytes(s, encoding=None):
    if isinstance(s, bytes): return s
    s=str(s)
    if encoding: return s.encode(encoding)
    for e in ('iso-8859-1','shift_jis','utf-8'):
        try: return s.encode(e)
        except UnicodeError: pass
cls=collections.Counter(); ex={}
def note(k, e):
    cls[k]+=1; ex.setdefault(k,e)
for it in range(N):
    kind=rnd.choice(['n','a','b','k','u','l','int'])
    n=rnd.choice([1,2,3,5,10,17,20,40,41,71,100,150,300,700,2000])
    if kind=='n': s=''.join(rnd.choice('0123456789') for _ in range(n))
    elif kind=='a': s=''.join(rnd.choice(R.ALNUM) for _ in range(n))
    elif kind=='b': s=''.join(rnd.choice('abcdefgh xyz,.') for _ in range(n))
    elif kind=='k': s=''.join(rnd.choice('点茗漢字日本語') for _ in range(n))
    elif kind=='u': s=''.join(rnd.choice('aé€漢🙂b') for _ in range(n))
    elif kind=='l': s=''.join(rnd.choice('aéüöß') for _ in range(n))
    else: s=rnd.randrange(10**(n-1), 10**n)
    kw={}
    r=rnd.random()
    if r<0.45: kw['version']=rnd.choice([1,1,2,3,5,9,10,20,27,40])
    elif r<0.9: kw['symbol_count']=rnd.randint(1,16)
    else: kw['version']=rnd.randint(1,40); kw['symbol_count']=rnd.randint(1,16)
    if rnd.random()<0.5: kw['error']=rnd.choice('LMQH')
    if rnd.random()<0.3: kw['boost_error']=False
    if rnd.random()<0.2: kw['mask']=rnd.randrange(8)
    if rnd.random()<0.15: kw['encoding']=rnd.choice(['utf-8','shift_jis','utf-16-be'])
    try:
        seq=segno.make_sequence(s, **kw)
    except ValueError as e:
        note(('refused', type(e).__name__), (s if len(str(s))<40 else len(str(s)),kw,str(e)[:60])); continue
    except Exception as e:
        note(('EXC',type(e).__name__, traceback.extract_tb(e.__traceback__)[-1].name),(str(s)[:30],len(str(s)),kw)); continue
    try: exp=expected_bytes(s, kw.get('encoding'))
    except Exception as e:
        note(('expfail',),(s,kw)); continue
    if not 1<=len(seq)<=16: note(('COUNT',len(seq)),(s,kw)); continue
    if 'symbol_count' in kw and 'version' not in kw and len(seq)!=kw['symbol_count']: note(('WRONGCOUNT',),(str(s)[:30],len(str(s)),kw,len(seq)))
    if 'version' in kw and 'symbol_count' not in kw and any(q.version!=kw['version'] for q in seq): note(('WRONGVERSION',),(str(s)[:30],len(str(s)),kw,[q.version for q in seq]))
    got=b''; bad=False; par=set()
    for i,q in enumerate(seq):
        if q.is_micro: note(('MICRO',),(s,kw)); bad=True;break
        try: d=R.decode(q.matrix)
        except R.SymbolError as e:
            note(('UNDECODABLE',kind, str(e)[:30]),(str(s)[:30],len(str(s)),kw,i,q.designator)); bad=True; break
        if d['structure_errors'] or not all(d['rs_ok']): note(('STRUCT',),(s,kw)); bad=True;break
        if len(seq)>1:
            if d['sa'] is None: note(('NOSA',),(s,kw)); bad=True;break
            if d['sa'][0]!=i or d['sa'][1]!=len(seq)-1: note(('SAIDX',),(s,kw,d['sa'])); bad=True;break
            par.add(d['sa'][2])
        else:
            if d['sa'] is not None: note(('SA-IN-SINGLE',),(s,kw))
        got+=b''.join(x['data'] for x in d['segments'])
    if bad: continue
    if got!=exp: note(('PAYLOAD',kind),(str(s)[:30],len(str(s)),kw,len(seq),got[:30],exp[:30])); continue
    if len(seq)>1:
        p=reduce(lambda a,b:a^b, exp)
        if par!={p}: note(('PARITY',kind),(str(s)[:30],kw,par,p)); continue
    note(('ok', len(seq)>1),(str(s)[:30],kw))
for k,c in sorted(cls.items(), key=lambda x:-x[1]): print(c,k,ex[k])
