import qrref as R, segno, collections
from segno import consts
T={R.FINDER:(consts.TYPE_FINDER_PATTERN_LIGHT,consts.TYPE_FINDER_PATTERN_DARK),R.SEPARATOR:(consts.TYPE_SEPARATOR,None),R.TIMING:(consts.TYPE_TIMING_LIGHT,consts.TYPE_TIMING_DARK),R.ALIGNMENT:(consts.TYPE_ALIGNMENT_PATTERN_LIGHT,consts.TYPE_ALIGNMENT_PATTERN_DARK),R.FORMAT:(consts.TYPE_FORMAT_LIGHT,consts.TYPE_FORMAT_DARK),R.VERSION:(consts.TYPE_VERSION_LIGHT,consts.TYPE_VERSION_DARK),R.DARKMODULE:(None,consts.TYPE_DARKMODULE),R.DATA:(consts.TYPE_DATA_LIGHT,consts.TYPE_DATA_DARK)}
bad=collections.Counter(); ex={}
for v in R.ALL_VERSIONS:
    q=segno.make('1', version=v)
    n=len(q.matrix)
    cls,_=R.function_map(v)
    for border in (0,1,3):
        rows=list(q.matrix_iter(verbose=True,border=border,scale=1))
        assert len(rows)==n+2*border
        for i,row in enumerate(rows):
            for j,t in enumerate(row):
                r,c=i-border,j-border
                if 0<=r<n and 0<=c<n:
                    e=T[cls[r][c]][q.matrix[r][c]]
                else: e=consts.TYPE_QUIET_ZONE
                if t!=e:
                    k=(R.CLASS_NAMES.get(cls[r][c]) if 0<=r<n and 0<=c<n else 'qz', t, (r, c-n))
                    bad[k]+=1; ex.setdefault(k,(v,r,c))
print(bad); print(ex)
