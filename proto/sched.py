"""Deterministic line-level thread scheduler prototype."""
import sys, threading, os, time
import segno
SEGNO_DIR=os.path.dirname(segno.__file__)
class Sched:
    def __init__(self, jobs, schedule):
        self.jobs=jobs; self.n=len(jobs)
        self.schedule=list(schedule)  # [(tid, lines)]
        self.results=[None]*self.n; self.done=[False]*self.n
        self.cv=threading.Condition()
        self.current=None; self.budget=0
        self.switches=0; self.inside=[False]*self.n; self.concurrent_switches=0
    def _next(self):
        # called with cv held: pick next runnable
        while self.schedule:
            tid,lines=self.schedule.pop(0)
            tid%=self.n
            if not self.done[tid]:
                self.current=tid; self.budget=lines; return
        for tid in range(self.n):
            if not self.done[tid]:
                self.current=tid; self.budget=10**12; return
        self.current=None
    def _wait_turn(self, tid):
        with self.cv:
            while self.current!=tid:
                self.cv.wait()
    def _yield(self, tid):
        with self.cv:
            if sum(self.inside)>=2: self.concurrent_switches+=1
            self.switches+=1
            self._next(); self.cv.notify_all()
            while self.current!=tid:
                self.cv.wait()
    def _tracer(self, tid):
        def local(frame, event, arg):
            if event=='line':
                self.budget-=1
                if self.budget<=0:
                    self._yield(tid)
            return local
        def glob(frame, event, arg):
            if event=='call' and frame.f_code.co_filename.startswith(SEGNO_DIR):
                return local
            return None
        return glob
    def _run(self, tid):
        self._wait_turn(tid)
        sys.settrace(self._tracer(tid))
        try:
            self.inside[tid]=True
            try: self.results[tid]=('ok', self.jobs[tid]())
            except Exception as e: self.results[tid]=('exc', type(e).__name__, str(e))
        finally:
            sys.settrace(None)
            self.inside[tid]=False
            with self.cv:
                self.done[tid]=True
                self._next(); self.cv.notify_all()
    def run(self):
        ths=[threading.Thread(target=self._run,args=(i,)) for i in range(self.n)]
        with self.cv: self._next()
        for t in ths: t.start()
        for t in ths: t.join(60)
        assert not any(t.is_alive() for t in ths), 'deadlock'
        return self.results
if __name__=='__main__':
    import random, io
    rnd=random.Random(1)
    def job_make(s,**kw): return lambda: bytes(b''.join(bytes(r) for r in segno.make(s,**kw).matrix))
    def job_png(s): 
        def f():
            b=io.BytesIO(); segno.make(s).save(b,kind='png',scale=2); return b.getvalue()
        return f
    jobs=[job_make('HELLO'), job_make('12345', micro=False), job_png('abc')]
    base=[j() for j in jobs]
    t0=time.time(); tot_sw=0
    for trial in range(20):
        schedule=[(rnd.randrange(3), rnd.randint(1,400)) for _ in range(200)]
        s=Sched(jobs, schedule); res=s.run()
        assert [r[1] for r in res]==base, trial
        tot_sw+=s.concurrent_switches
    print('20 schedules ok', time.time()-t0, 's, concurrent switches', tot_sw)
