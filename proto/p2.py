import qrref as R
from segno import consts, encoder
import segno
# table cross-validation
bad=0
for v in R.ALL_VERSIONS:
    sv = consts.MICRO_VERSION_MAPPING[v] if R.is_micro(v) else v
    for lvl in R.levels_of(v):
        se = consts.ERROR_MAPPING[lvl] if lvl else None
        lay = R.block_layout(v,lvl)
        seg=[]
        for ec in consts.ECC[sv][se]:
            seg += [(ec.num_total, ec.num_data)]*ec.num_blocks
        if lay!=seg: print('LAYOUT DIFF', v,lvl,lay,seg); bad+=1
        if R.data_capacity_bits(v,lvl)!=consts.SYMBOL_CAPACITY[sv][se]: print('CAP DIFF',v,lvl); bad+=1
    if not R.is_micro(v) and v>=2:
        if R.alignment_positions(v)!=consts.ALIGNMENT_POS[v-2]: print('ALIGN DIFF', v); bad+=1
    if not R.is_micro(v) and v>=7:
        if R.golay18_6(v)!=consts.VERSION_INFO[v-7]: print('VER DIFF', v); bad+=1
for n,g in consts.GEN_POLY.items():
    mine = [R.LOG[c] for c in R.rs_generator(n)[1:]]
    if tuple(mine)!=g: print('GEN DIFF', n); bad+=1
for lvl in 'LMQH':
    for m in range(8):
        fmt = m + {'L':8,'M':0,'H':16,'Q':24}[lvl]
        if R.format_word(1,lvl,m)!=consts.FORMAT_INFO[fmt]: print('FMT DIFF',lvl,m); bad+=1
for (v,lvl),sn in R._MICRO_SYMBOL_NUMBER.items():
    for m in range(4):
        if R.format_word(v,lvl,m)!=consts.FORMAT_INFO_MICRO[(sn<<2)+m]: print('MFMT DIFF'); bad+=1
print('table diffs', bad)
# remainder bits
for v in range(1,41):
    rem = 7 if v in (2,3,4,5,6) else 3 if v in (14,15,16,17,18,19,20,28,29,30,31,32,33,34) else 4 if v in range(21,28) else 0
    assert R.remainder_bits(v)==rem, v
    assert len(R.data_positions(v)) == R.raw_data_modules(v), v
print({v: len(R.data_positions(v)) for v in R.MICRO})
import random
rnd = random.Random(1)
def show(q):
    d = R.decode(q.matrix)
    return d
for content, kw in [('HELLO WORLD', {}), ('12345', {}), ('Let it be', {}), ('ビートルズ', {}), ('abc'*100, {'error':'h'}), ('书读百遍其义自现', {'mode':'hanzi'}), ('ä', dict(encoding='utf-8', eci=True, micro=False)), (1234567, dict(version='M3'))]:
    q = segno.make(content, **kw)
    d = R.decode(q.matrix)
    print(q.designator, q.mask, d['version'], d['level'], d['mask'], d['structure_errors'][:3], d['rs_ok'].count(False), [(s['mode'], s['count'], s['data'][:20], s['eci']) for s in d['segments']], d['terminated_by'], d['format_decoded'])
