import qrref as R, readers as RD, segno, random, sys, collections, io, traceback
rnd=random.Random(int(sys.argv[1])); N=int(sys.argv[2])
NAMED={'black':(0,0,0),'white':(255,255,255),'red':(255,0,0),'green':(0,128,0),'blue':(0,0,255),'yellow':(255,255,0),'gray':(128,128,128),'silver':(192,192,192),'maroon':(128,0,0),'navy':(0,0,128),'orange':(255,165,0),'lime':(0,255,0),'teal':(0,128,128)}
def rand_color(alpha_ok=True, none_ok=False):
    """returns (spec, rgba8 or None)"""
    k=rnd.random()
    if none_ok and k<0.12: return None, None
    if k<0.3:
        n=rnd.choice(list(NAMED)); spec=rnd.choice([n,n.upper(),n.title()]); return spec, NAMED[n]+(255,)
    if k<0.45:
        c=tuple(rnd.randrange(16) for _ in range(3)); return '#%x%x%x'%c, tuple(v*17 for v in c)+(255,)
    if k<0.65:
        c=tuple(rnd.choice([0,1,127,128,254,255,rnd.randrange(256)]) for _ in range(3)); return rnd.choice(['#%02x%02x%02x','#%02X%02X%02X'])%c, c+(255,)
    if k<0.8 or not alpha_ok:
        c=tuple(rnd.randrange(256) for _ in range(3)); return c, c+(255,)
    if k<0.9:
        c=tuple(rnd.randrange(256) for _ in range(4)); return '#%02x%02x%02x%02x'%c, c
    c=tuple(rnd.randrange(256) for _ in range(3))+(rnd.randrange(2,255),); return c, c
cls=collections.Counter(); ex={}
def note(k,e): cls[k]+=1; ex.setdefault(k,e)
def expected_grid(q, scale, border):
    n=len(q.matrix); b=border if border is not None else (2 if q.is_micro else 4)
    size=(n+2*b)*scale
    g=[[0]*size for _ in range(size)]
    for y in range(size):
        for x in range(size):
            r=y//scale-b; c=x//scale-b
            if 0<=r<n and 0<=c<n: g[y][x]=q.matrix[r][c]
    return g
for it in range(N):
    s=''.join(rnd.choice('abc123XYZ ') for _ in range(rnd.choice([1,3,10,30,60])))
    q=segno.make(s, micro=rnd.choice([None,False]))
    scale=rnd.choice([1,1,2,3,4,5,7,1.5,2.9])
    border=rnd.choice([None,None,0,1,2,3,4,5,7])
    iscale=int(scale)
    g=expected_grid(q,iscale,border)
    size=len(g)
    fmt=rnd.choice(['png','png','pbm','pbm1','pam','ppm','xbm','xpm','txt','ans','compact'])
    kw=dict(scale=scale,border=border)
    try:
        if fmt=='png':
            ds,d=rand_color(none_ok=True); ls,l=rand_color(none_ok=True)
            if d is None and l is None: continue
            kw.update(dark=ds,light=ls)
            if rnd.random()<0.3: kw['dpi']=rnd.choice([72,96,300,600])
            if rnd.random()<0.3: kw['compresslevel']=rnd.randrange(0,10)
            buf=io.BytesIO(); q.save(buf,kind='png',**kw)
            w,h,px,info=RD.read_png(buf.getvalue())
            if (w,h)!=(size,size): note(('DIM',fmt),(s,kw,w,h,size)); continue
            bad=0
            for y in range(h):
                for x in range(w):
                    e=d if g[y][x] else l
                    p=px[y][x]
                    if e is None:
                        if p[3]!=0: bad+=1
                    elif p!=e: bad+=1
            if bad: note(('PIX',fmt, info['ctype'],info['depth']),(s,kw,bad, d,l, info)); continue
            if d is not None and l is not None and d==l: note(('same-colour',fmt),0)
            note(('ok',fmt,info['ctype'],info['depth']),0)
        elif fmt in('pbm','pbm1'):
            if fmt=='pbm1': kw['plain']=True
            buf=io.BytesIO(); q.save(buf,kind='pbm',**kw)
            w,h,rows=RD.read_pbm(buf.getvalue())
            if rows!=g: note(('PIX',fmt),(s,kw)); continue
            note(('ok',fmt),0)
        elif fmt=='pam':
            ds,d=rand_color(); ls,l=rand_color(none_ok=True,alpha_ok=True)
            kw.update(dark=ds,light=ls)
            buf=io.BytesIO(); q.save(buf,kind='pam',**kw)
            w,h,depth,maxval,tt,rows=RD.read_pam(buf.getvalue())
            if (w,h)!=(size,size): note(('DIM',fmt),(s,kw)); continue
            bad=0
            for y in range(h):
                for x in range(w):
                    e=d if g[y][x] else l
                    p=RD.pam_rgba(tt,maxval,rows[y][x])
                    if e is None:
                        if p[3]!=0: bad+=1
                    elif p!=e: bad+=1
            if bad: note(('PIX',fmt,tt),(s,kw,bad,d,l,tt,maxval)); continue
            note(('ok',fmt,tt),0)
        elif fmt=='ppm':
            ds,d=rand_color(alpha_ok=False); ls,l=rand_color(alpha_ok=False)
            kw.update(dark=ds,light=ls)
            buf=io.BytesIO(); q.save(buf,kind='ppm',**kw)
            w,h,maxval,rows=RD.read_ppm(buf.getvalue())
            exp=[[ (d if b else l)[:3] for b in r] for r in g]
            if rows!=exp: note(('PIX',fmt),(s,kw)); continue
            note(('ok',fmt),0)
        elif fmt=='xbm':
            buf=io.StringIO(); q.save(buf,kind='xbm',**kw)
            name,w,h,rows=RD.read_xbm(buf.getvalue())
            if rows!=g: note(('PIX',fmt),(s,kw)); continue
            note(('ok',fmt),0)
        elif fmt=='xpm':
            ds,d=rand_color(alpha_ok=False,none_ok=True); ls,l=rand_color(alpha_ok=False,none_ok=True)
            kw.update(dark=ds,light=ls)
            buf=io.StringIO(); q.save(buf,kind='xpm',**kw)
            name,w,h,rows=RD.read_xpm(buf.getvalue())
            hx=lambda c: 'None' if c is None else '#%02x%02x%02x'%c[:3]
            exp=[[hx(d) if b else hx(l) for b in r] for r in g]
            if rows!=exp: note(('PIX',fmt),(s,kw,rows[0][:3],exp[0][:3])); continue
            note(('ok',fmt),0)
        elif fmt=='txt':
            kw.pop('scale'); g1=expected_grid(q,1,border)
            buf=io.StringIO(); q.save(buf,kind='txt',**kw)
            if RD.read_txt(buf.getvalue())!=g1: note(('PIX',fmt),(s,kw)); continue
            note(('ok',fmt),0)
        elif fmt=='ans':
            g1=expected_grid(q,1,border)
            buf=io.StringIO(); q.terminal(buf,border=border)
            if RD.read_ansi(buf.getvalue())!=g1: note(('PIX',fmt),(s,kw)); continue
            note(('ok',fmt),0)
        else:
            g1=expected_grid(q,1,border)
            buf=io.StringIO(); q.terminal(buf,border=border,compact=True)
            rows=RD.read_compact(buf.getvalue())
            if rows[:len(g1)]!=g1 or any(any(v!=1 for v in r) for r in rows[len(g1):]) or len(rows)-len(g1)>1: note(('PIX',fmt),(s,kw)); continue
            note(('ok',fmt),0)
    except RD.FormatError as e:
        note(('MALFORMED',fmt,str(e)[:40]),(s,kw))
    except ValueError as e:
        note(('refused',fmt,str(e)[:50]),(s,kw))
    except Exception as e:
        note(('EXC',fmt,type(e).__name__,traceback.extract_tb(e.__traceback__)[-1].name),(s,kw,str(e)[:80]))
for k,c in sorted(cls.items(), key=lambda x:str(x[0])): print(c,k,ex[k] if ex[k] else '')
