import qrref as R, vreaders as V, segno, random, sys, collections, io, traceback
from fractions import Fraction as F
rnd=random.Random(int(sys.argv[1])); N=int(sys.argv[2])
cls=collections.Counter(); ex={}
def note(k,e): cls[k]+=1; ex.setdefault(k,e)
def grid_from_segments(segs, n_total):
    """segs: (x1, ytop_center, x2, lw) in module units from top-left of page. returns coverage count grid or raises"""
    g=[[0]*n_total for _ in range(n_total)]
    def snap(v):
        s=F(round(v*2),2)
        return s if abs(v-s)<F(1,10**6) else v
    for (x1,y,x2,lw) in segs:
        x1,y,x2,lw=snap(x1),snap(y),snap(x2),snap(lw)
        if lw!=1: raise V.FormatError('line width %s != 1 module'%lw)
        if x1.denominator!=1 or x2.denominator!=1 or (y-F(1,2)).denominator!=1: raise V.FormatError('segment off grid %s %s %s'%(x1,y,x2))
        if x2<=x1: raise V.FormatError('empty/reversed segment')
        r=int(y-F(1,2))
        for c in range(int(x1),int(x2)):
            if not (0<=r<n_total and 0<=c<n_total): raise V.FormatError('outside page (%d,%d)'%(r,c))
            g[r][c]+=1
    return g
def expected(q,border):
    n=len(q.matrix); b=border if border is not None else (2 if q.is_micro else 4)
    t=n+2*b
    g=[[0]*t for _ in range(t)]
    for r in range(n):
        for c in range(n): g[r+b][c+b]=q.matrix[r][c]
    return g,t
for it in range(N):
    s=''.join(rnd.choice('abc123XYZ ') for _ in range(rnd.choice([1,3,10,30,60])))
    q=segno.make(s, micro=rnd.choice([None,False]))
    scale=rnd.choice([1,1,2,3,10,0.5,0.25,1.5,2.5,3.3,0.1,7.7,1.25])
    border=rnd.choice([None,None,0,1,2,4,5])
    fmt=rnd.choice(['svg','svg','eps','pdf','tex'])
    g,t=expected(q,border)
    kw=dict(scale=scale,border=border)
    light=rnd.choice([None,None,'white','#ff0','#123456'])
    dark=rnd.choice(['black','#000','red','#00f','#123',(1,2,3)])
    fs=F(str(scale))
    try:
        if fmt=='svg':
            kw.update(dark=dark, light=light)
            if rnd.random()<0.3: kw['omitsize']=True
            elif rnd.random()<0.3: kw['unit']=rnd.choice(['mm','px','cm'])
            if rnd.random()<0.2: kw['svgversion']=rnd.choice([1.1,2.0])
            if rnd.random()<0.2: kw['xmldecl']=False
            if rnd.random()<0.2: kw['svgns']=False
            if rnd.random()<0.2: kw['nl']=False
            if rnd.random()<0.2: kw['title']=rnd.choice(['a<b','x&y','"q"'])
            if rnd.random()<0.2: kw['draw_transparent']=True
            buf=io.BytesIO(); q.save(buf,kind='svg',**kw)
            d=V.read_svg(buf.getvalue())
            if any(abs(p-t*fs)>F(1,10**6)*t*fs for p in d['page']): note(('PAGE',fmt),(s,kw,d['page'],t*fs)); continue
            segs=[(x1,y,x2,lw) for (c,x1,y,x2,lw,sc) in d['segments'] if c is not None or not kw.get('draw_transparent')]
            # with draw_transparent and light None there may be a transparent path (stroke None) for light modules
            scs={sc for (*_,sc) in d['segments']}|{b[2] for b in d['backgrounds']}
            if scs-{fs}: note(('SCALE',fmt),(s,kw,scs)); continue
            darksegs=[(x1,y,x2,lw) for (c,x1,y,x2,lw,sc) in d['segments'] if c is not None]
            gg=grid_from_segments(darksegs,t)
            if gg!=g: note(('COVER',fmt),(s,kw)); continue
            if light is not None and not kw.get('draw_transparent'):
                if len(d['backgrounds'])!=1: note(('BGCOUNT',fmt),(s,kw,len(d['backgrounds']))); continue
                fill,rect,sc,pos=d['backgrounds'][0]
                if rect!=(0,0,t,t): note(('BGRECT',fmt),(s,kw,tuple(map(float,rect)),t)); continue
                if pos!=0: note(('BGORDER',fmt),(s,kw)); continue
            note(('ok',fmt, scale!=1, light is not None),0)
        elif fmt=='eps':
            kw.update(dark=dark, light=light)
            buf=io.StringIO(); q.save(buf,kind='eps',**kw)
            d=V.read_eps(buf.getvalue())
            if any(abs(p-t*fs)>F(1,10**6)*t*fs for p in d['page']): note(('PAGE',fmt),(s,kw,d['page'])); continue
            if d['scale']!=fs: note(('SCALE',fmt),(s,kw,d['scale'])); continue
            segs=[(x1,t-y,x2,lw) for (c,x1,y,x2,lw) in d['segments_up']]
            gg=grid_from_segments(segs,t)
            if gg!=g: note(('COVER',fmt),(s,kw)); continue
            if (light is not None)!=(d['background'] is not None): note(('BG',fmt),(s,kw)); continue
            note(('ok',fmt, scale!=1, light is not None),0)
        elif fmt=='pdf':
            kw.update(dark=dark, light=light)
            buf=io.BytesIO(); q.save(buf,kind='pdf',**kw)
            d=V.read_pdf(buf.getvalue())
            if any(abs(p-t*fs)>F(1,10**6)*t*fs for p in d['page']): note(('PAGE',fmt),(s,kw,d['page'])); continue
            if not d['length_ok']: note(('LENGTH',fmt),(s,kw)); continue
            if not all(d['xref_ok'].values()): note(('XREF',fmt),(s,kw,d['xref_ok'])); continue
            segs=[(x1/fs,t-y/fs,x2/fs,lw/fs) for (c,x1,y,x2,lw) in d['segments_page']]
            gg=grid_from_segments(segs,t)
            if gg!=g: note(('COVER',fmt),(s,kw)); continue
            if light is not None:
                if not (d['bg_rect'][0]<=0 and d['bg_rect'][1]<=0 and d['bg_rect'][2]>=t*fs*(1-F(1,10**6)) and d['bg_rect'][3]>=t*fs*(1-F(1,10**6))): note(('BGRECT',fmt, 'scale<1' if scale<1 else 'scale>1' if scale>1 else '1'),(s,kw,tuple(map(float,d['bg_rect'])),float(t*fs))); continue
            note(('ok',fmt, scale!=1, light is not None),0)
        else:
            kw.update(dark=rnd.choice(['black','red',None]))
            if rnd.random()<0.3: kw['url']='http://example.org/'
            if rnd.random()<0.3: kw['unit']=rnd.choice(['mm','pt','cm'])
            buf=io.StringIO(); q.save(buf,kind='tex',**kw)
            d=V.read_tex(buf.getvalue())
            if d['linewidth']!=fs: note(('LW',fmt),(s,kw)); continue
            segs=[(x1/fs,-y/fs+F(1,2),x2/fs,F(1)) for (x1,y,x2) in d['segments_down']]
            gg=grid_from_segments(segs,t)
            if gg!=g: note(('COVER',fmt),(s,kw,segs[:2])); continue
            note(('ok',fmt, scale!=1),0)
    except V.FormatError as e:
        note(('MALFORMED',fmt,str(e)[:50]),(s,kw))
    except ValueError as e:
        note(('refused',fmt,str(e)[:50]),(s,kw))
    except Exception as e:
        note(('EXC',fmt,type(e).__name__,traceback.extract_tb(e.__traceback__)[-1].name),(s,kw,str(e)[:80]))
for k,c in sorted(cls.items(), key=lambda x:str(x[0])): print(c,k,ex[k] if ex[k] else '')
