import qrref as R
def candidate(matrix, v, used_mask, k):
    """matrix emitted with used_mask -> matrix masked with k, format/version areas light."""
    n = len(matrix)
    cls,_ = R.function_map(v)
    f_old = R.mask_fn(v, used_mask); f_new = R.mask_fn(v, k)
    m = [list(r) for r in matrix]
    for r in range(n):
        for c in range(n):
            t = cls[r][c]
            if t == R.DATA:
                m[r][c] ^= (1 if f_old(r,c) else 0) ^ (1 if f_new(r,c) else 0)
            elif t in (R.FORMAT, R.VERSION, R.DARKMODULE):
                m[r][c] = 0
    return m
def runs(line):
    res=[]; prev=None; cnt=0
    for b in line:
        if b==prev: cnt+=1
        else:
            if prev is not None: res.append((prev,cnt))
            prev=b; cnt=1
    res.append((prev,cnt)); return res
def penalty(m, overlapping=True):
    n=len(m)
    lines = [list(r) for r in m] + [[m[r][c] for r in range(n)] for c in range(n)]
    n1=0
    for ln in lines:
        for b,c in runs(ln):
            if c>=5: n1 += 3 + (c-5)
    n2=0
    for r in range(n-1):
        for c in range(n-1):
            if m[r][c]==m[r][c+1]==m[r+1][c]==m[r+1][c+1]: n2+=3
    n3=0
    pat=[1,0,1,1,1,0,1]
    for ln in lines:
        i=0
        while i<=n-7:
            if ln[i:i+7]==pat:
                before = ln[max(0,i-4):i]; after = ln[i+7:i+11]
                if not any(before) or not any(after):
                    n3+=40
                    if not overlapping: i+=7; continue
            i+=1
    dark=sum(map(sum,m)); total=n*n
    k = abs(20*dark-10*total)//total
    n4=10*k
    return n1,n2,n3,n4
def micro_score(m):
    n=len(m)
    s1=sum(m[r][n-1] for r in range(1,n)); s2=sum(m[n-1][c] for c in range(1,n))
    return s1*16+s2 if s1<=s2 else s2*16+s1
def best_mask(matrix, v, used, overlapping=True):
    scores=[]
    for k in range(R.n_masks(v)):
        cm = candidate(matrix, v, used, k)
        scores.append(micro_score(cm) if R.is_micro(v) else sum(penalty(cm, overlapping)))
    if R.is_micro(v):
        best=max(scores)
    else: best=min(scores)
    return scores.index(best), scores
