import segno, io, os, tempfile, re, sys, random, collections, contextlib, traceback
from segno import cli
rnd=random.Random(int(sys.argv[1])); N=int(sys.argv[2])
tmp=tempfile.mkdtemp(dir='/tmp/probe')
def norm(kind, data):
    if kind=='eps': data=re.sub(rb'%%CreationDate: [^\n]*', b'', data)
    if kind=='pdf': data=re.sub(rb'/CreationDate\(D:[^)]*\)', b'', data)
    if kind=='tex': data=re.sub(rb'% Date: [^\n]*', b'', data)
    return data
KW={'svg':{'scale','border','dark','light','xmldecl','svgns','title','desc','svgid','svgclass','lineclass','omitsize','unit','encoding','svgversion','nl','draw_transparent','colors'},
 'png':{'scale','border','dark','light','dpi','colors'},'eps':{'scale','border','dark','light'},'pdf':{'scale','border','dark','light'},'txt':{'border','dark','light'},'ans':{'border'},
 'pbm':{'scale','border'},'pam':{'scale','border','dark','light'},'ppm':{'scale','border','dark','light','colors'},'tex':{'scale','border','dark','unit'},'xbm':{'scale','border'},'xpm':{'scale','border','dark','light'}}
COLORKEYS=['finder_dark','finder_light','data_dark','data_light','version_dark','version_light','format_dark','format_light','alignment_dark','alignment_light','timing_dark','timing_light','separator','dark_module','quiet_zone']
CLIFLAG={'alignment_dark':'--align-dark','alignment_light':'--align-light'}
cls=collections.Counter(); ex={}
def note(k,e): cls[k]+=1; ex.setdefault(k,e)
for it in range(N):
    kind=rnd.choice(list(KW))
    content=rnd.choice(['Hello','12345','HELLO WORLD','a b c'])
    mk={}; argv=[]
    if rnd.random()<0.5: mk['micro']=True; argv.append('--micro')
    else: mk['micro']=False
    if rnd.random()<0.3:
        e=rnd.choice('LMQ'); mk['error']=e; argv+=[rnd.choice(['-e','--error']), rnd.choice([e,e.lower()])]
    if rnd.random()<0.3: mk['boost_error']=False; argv.append('--no-error-boost')
    kw={}
    sup=KW[kind]
    def maybe(name, p=0.4): return name in sup and rnd.random()<p
    if maybe('scale'):
        s=rnd.choice([1,2,3,5,10]+([1.5,0.5,2.25] if kind in('svg','eps','pdf','tex') else [])); kw['scale']=s; argv.append(rnd.choice(['--scale=%s','-s=%s'])%s if False else '--scale=%s'%s)
    if maybe('border'):
        b=rnd.choice([0,1,2,5]); kw['border']=b; argv+=[rnd.choice(['--border','-b']),str(b)]
    if maybe('dark'):
        if kind=='txt': d=rnd.choice(['X','#']); 
        elif kind=='tex': d=rnd.choice(['red','blue'])
        else: d=rnd.choice(['red','#123456','#abc','darkblue']+(['transparent'] if kind in('png','xpm') else []))
        kw['dark']=None if d=='transparent' else d; argv+=['--dark',d] if rnd.random()<0.5 else ['--dark='+d]
    if maybe('light'):
        if kind=='txt': l=rnd.choice(['.','_'])
        else: l=rnd.choice(['yellow','#fedcba','#eee']+(['transparent','trans'] if kind in('png','svg','pam','xpm','eps','pdf') else []))
        kw['light']=None if l in('transparent','trans') else l; argv+=['--light='+l]
    if 'colors' in sup and rnd.random()<0.4:
        for k in rnd.sample(COLORKEYS, rnd.randint(1,4)):
            c=rnd.choice(['green','#0000ff','#f0f','orange'])
            kw[k]=c; argv+=[CLIFLAG.get(k,'--'+k.replace('_','-')), c]
    if kind=='svg':
        if rnd.random()<0.3: kw['xmldecl']=False; argv.append('--no-xmldecl')
        if rnd.random()<0.3: kw['svgns']=False; argv.append('--no-namespace')
        if rnd.random()<0.3: kw['nl']=False; argv.append('--no-newline')
        if rnd.random()<0.3: kw['title']='T <&> "q"'; argv+=['--title',kw['title']]
        if rnd.random()<0.3: kw['desc']='D & d'; argv+=['--desc',kw['desc']]
        if rnd.random()<0.3: kw['svgid']='myid'; argv+=['--svgid','myid']
        r=rnd.random()
        if r<0.2: kw['svgclass']=None; kw['lineclass']=None; argv.append('--no-classes')
        elif r<0.4: kw['svgclass']='c1'; argv+=['--svgclass','c1']
        elif r<0.6: kw['lineclass']='l1'; argv+=['--lineclass','l1']
        elif r<0.7: kw['svgclass']=''; argv+=['--svgclass','']
        r=rnd.random()
        if r<0.2: kw['omitsize']=True; argv.append('--no-size')
        elif r<0.4: kw['unit']='mm'; argv+=['--unit','mm']
        if rnd.random()<0.3: v=rnd.choice([1.1,2.0]); kw['svgversion']=v; argv+=['--svgversion',str(v)]
        if rnd.random()<0.2: kw['encoding']='iso-8859-1'; argv+=['--svgencoding','iso-8859-1']
        if rnd.random()<0.2: kw['draw_transparent']=True; argv.append('--draw-transparent')
    if kind=='png' and rnd.random()<0.3: kw['dpi']=300; argv+=['--dpi','300']
    if kind=='tex' and rnd.random()<0.3: kw['unit']='mm'; argv+=['--unit','mm']
    ext=rnd.choice([kind, kind.upper()])
    fn=os.path.join(tmp,'o%d.%s'%(it,ext))
    argv+=['-o',fn] if rnd.random()<0.5 else ['--output='+fn]
    argv.append(content)
    try:
        q=segno.make(content, **mk)
        buf=io.BytesIO() if kind in('png','svg','pdf','pbm','pam','ppm') else io.StringIO()
        q.save(buf, kind=kind, **kw); a=buf.getvalue(); a=a if isinstance(a,bytes) else a.encode()
        api='ok'
    except Exception as e:
        api=type(e).__name__; a=None
    try:
        rc=cli.main(list(argv)); c=open(fn,'rb').read(); clir='ok'
    except SystemExit as e: clir='exit%s'%e.code; c=None
    except Exception as e: clir=type(e).__name__; c=None
    if api!='ok' or clir!='ok':
        note(('outcome',kind,api,clir),(argv,kw)); continue
    if norm(kind,a)!=norm(kind,c): note(('DIFF',kind),(argv,kw,a[:300],c[:300])); continue
    note(('same',kind),0)
    os.unlink(fn)
for k,c in sorted(cls.items(), key=lambda x:str(x[0])): print(c,k,ex[k] if ex[k] else '')
