import segno, io
from segno import encoder, consts, helpers
# 1. kanji autodetect trail<0x40
q = segno.make('\u00820', micro=False)
print('kanji auto', q.mode, q.designator)
q = segno.make(b'\x82\x30', micro=False)
print('kanji auto bytes', q.mode)
# 2. ECI in micro
q = segno.make('ä', encoding='utf-8', eci=True)
print('eci micro', q.designator, q.is_micro)
# 3. merge
q = segno.make(['12', '345'], micro=False)
print('merge', q.mode, q.designator)
# 4. hanzi sizing
for n in range(1,40):
    s='书'*n
    try:
        q=segno.make(s, mode='hanzi', error='l', boost_error=False, version=1)
        last=n
    except ValueError as e:
        print('hanzi v1-L max', last); break
# cap 152 bits: 4+4+8+13n <=152 -> n<=10 ; w/o subset 4+8+13n<=152 -> n<=10.7 -> 10. try H: 72: 16+13n -> 4 ; 12+13n<=72 -> 4.6
# find boundary where differ: cap - 12 mod 13 in [0..3]
for v in range(1,41):
    for e in 'LMQH':
        cap = consts.SYMBOL_CAPACITY[v][consts.ERROR_MAPPING[e]]
        cc = consts.CHAR_COUNT_INDICATOR_LENGTH[consts.MODE_HANZI][encoder.version_range(v)]
        n1 = (cap-4-cc)//13; n2=(cap-8-cc)//13
        if n1!=n2:
            print('hanzi boundary differs', v, e, n1, n2); break
    else: continue
    break
# one-byte kanji
for m in ('kanji','hanzi'):
    try:
        segno.make(b'\x93', mode=m)
    except Exception as ex:
        print(m, type(ex).__name__, ex)
# email
print(helpers.make_make_email_data('a@b.c', body='hi'))
print(helpers.make_make_email_data('a@b.c', subject='s', body='hi'))
print(repr(helpers.make_vcard_data('Doe;John','John\nDoe', memo='a\r\nb')))
print(helpers.make_wifi_data('a;b', 'p\\', 'WPA'))
