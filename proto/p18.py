import qrref as R, segno, collections, sys
ORDER=['L','M','Q','H']
def payload_bits(mode, n):
    if mode=='numeric': return 10*(n//3) + (0,4,7)[n%3]
    if mode=='alphanumeric': return 11*(n//2) + 6*(n%2)
    if mode=='byte': return 8*n
    return 13*n
def need(v, mode, n):
    cc=R.cci_bits(v,mode)
    return None if cc is None else R.mode_indicator_bits(v)+cc+payload_bits(mode,n)
def content(mode,n): return {'numeric':'1','alphanumeric':'A','byte':'a','kanji':'点'}[mode]*n
bad=collections.Counter(); ex={}; tot=0
for v in list(R.MICRO)+list(range(1,12))+[20,27,40]:
    for mode in ('numeric','alphanumeric','byte','kanji'):
        if R.cci_bits(v,mode) is None: continue
        ns=set()
        for lvl in R.levels_of(v):
            cap=R.data_capacity_bits(v,lvl)
            # largest n that fits
            n=0
            while need(v,mode,n+1)<=cap: n+=1
            ns.update(x for x in (n-1,n,n+1) if x>=1)
        for n in sorted(ns):
            for req in (None,'L','M','Q','H'):
                for boost in (True,False):
                    for pin in (True,False):
                        kw=dict(error=req, boost_error=boost, mask=0)
                        if pin: kw['version']=v
                        else: kw['micro']=None if R.is_micro(v) else False
                        tot+=1
                        try: q=segno.make(content(mode,n), **kw)
                        except ValueError: continue
                        d_=R.decode(q.matrix); got=d_['level']; gv=d_['version']
                        reqeff = req or ('L' if gv!='M1' else None)
                        if gv=='M1':
                            if got is not None: bad['m1']+=1
                            continue
                        if ORDER.index(got)<ORDER.index(reqeff): bad['below']+=1; ex.setdefault('below',(v,mode,n,kw,got)); continue
                        if R.is_micro(gv) and got=='H': bad['microH']+=1
                        q0=segno.make(content(mode,n), **dict(kw,boost_error=False))
                        if q0.version!=q.version: bad['verchange']+=1; ex.setdefault('verchange',(v,mode,n,kw)); continue
                        if boost:
                            best=max((l for l in R.levels_of(gv) if ORDER.index(l)>=ORDER.index(reqeff) and R.data_capacity_bits(gv,l)>=need(gv,mode,n)), key=ORDER.index)
                            if got!=best: bad['notmax']+=1; ex.setdefault('notmax',(v,mode,n,kw,got,best))
                        elif got!=reqeff: bad['noboost-diff']+=1; ex.setdefault('noboost-diff',(v,mode,n,kw,got))
print(tot,bad,ex)
