import qrref as R, pen, segno
from segno import encoder
q=segno.make('prhClwsekk', micro=False)
print(q.designator,q.mask)
for k in range(8):
    cm=pen.candidate(q.matrix, q.version, q.mask, k)
    mine=pen.penalty(cm, True); mine2=pen.penalty(cm, False)
    theirs=encoder.mask_scores([bytearray(r) for r in cm], 21, 21)
    print(k, mine, mine2, theirs)
