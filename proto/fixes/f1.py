import sys; sys.path.insert(0,'/verif/tools'); from edit import rep
rep('segno/encoder.py', """        code = (next(data_iter) << 8) | next(data_iter)
        if not (0x8140 <= code <= 0x9ffc or 0xe040 <= code <= 0xebbf):
            return False""", """        code = (next(data_iter) << 8) | next(data_iter)
        if not (0x8140 <= code <= 0x9ffc or 0xe040 <= code <= 0xebbf):
            return False
        if not 0x40 <= code & 0xff <= 0xfc or code & 0xff == 0x7f:
            # Not a valid Shift JIS trail byte, cannot be represented in Kanji mode
            return False""")
