#!/bin/bash
# usage: trial.sh name  (expects /tmp/fixes/name.py which edits files under /tmp/segno_fix)
name=$1
rm -rf /tmp/segno_fix && cp -r /repo /tmp/segno_fix
cd /tmp/segno_fix && /venv/bin/python /tmp/fixes/$name.py || { echo "EDIT FAILED $name"; exit 2; }
git -C /tmp/segno_fix diff --stat | tail -1
/venv/bin/python -m pytest -q -p no:cacheprovider -n 8 2>&1 | grep -E "passed|failed|FAILED|ERROR" | head -15
