import sys; sys.path.insert(0,'/verif/tools'); from edit import rep
rep('segno/writers.py', "    if rgba[3] in (1.0, 255):\n", "    if rgba[3] == (1.0 if alpha_float else 255):\n")
