import sys; sys.path.insert(0,'/verif/tools'); from edit import rep
rep('segno/encoder.py', """    def divide_into_chunks(data, num):
        k, m = divmod(len(data), num)
        return [data[i * k + min(i, m):(i + 1) * k + min(i + 1, m)] for i in range(num)]
""", """    def divide_into_chunks(data, num):
        # "step" keeps the two bytes of a Kanji / Hanzi character together
        k, m = divmod(len(data) // step, num)
        return [data[(i * k + min(i, m)) * step:((i + 1) * k + min(i + 1, m)) * step] for i in range(num)]
""")
rep('segno/encoder.py', """        length = len(content)
        ver_range = version_range(version)""", """        length = len(content) // step
        ver_range = version_range(version)""")
rep('segno/encoder.py', """    if mode == consts.MODE_NUMERIC:
        content = str(content)
    if symbol_count is not None and len(content) < symbol_count:
        raise ValueError(f'The content is not long enough to be divided into {symbol_count} symbols')
    sa_parity_data = calc_structured_append_parity(content)
""", """    # Divide the encoded data (not the text) into chunks: All symbols must use
    # the same encoding and the parity data refers to the encoded bytes
    content, _, encoding = data_to_bytes(content, encoding if mode != consts.MODE_HANZI else consts.HANZI_ENCODING)
    step = 2 if mode in (consts.MODE_KANJI, consts.MODE_HANZI) else 1
    if symbol_count is not None and len(content) // step < symbol_count:
        raise ValueError(f'The content is not long enough to be divided into {symbol_count} symbols')
    sa_parity_data = reduce(xor, content)
""")
rep('segno/encoder.py', """        num_symbols = number_of_symbols_by_version(content, version, error, mode)
    if num_symbols > 16:""", """        num_symbols = number_of_symbols_by_version(content, version, error, mode)
        # The above mentioned number is an estimation, ensure that all chunks fit
        capacity = consts.SYMBOL_CAPACITY[version][error]
        while num_symbols < 16 and any(one_item_segments(chunk, mode).bit_length_with_overhead(version, eci, is_sa=True) > capacity
                                       for chunk in divide_into_chunks(content, num_symbols)):
            num_symbols += 1
    if num_symbols > 16:""")
