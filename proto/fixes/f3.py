import sys; sys.path.insert(0,'/verif/tools'); from edit import rep
rep('segno/encoder.py', """            if prev_seg.mode == segment.mode and prev_seg.encoding == segment.encoding:""", """            # Numeric / alphanumeric data is encoded in groups of 3 / 2 characters,
            # the bits can only be concatenated if the previous segment ends with a
            # complete group
            group_size = {consts.MODE_NUMERIC: 3, consts.MODE_ALPHANUMERIC: 2}.get(segment.mode, 1)
            if prev_seg.mode == segment.mode and prev_seg.encoding == segment.encoding \\
                    and prev_seg.char_count % group_size == 0:""")
