import sys; sys.path.insert(0,'/verif/tools'); from edit import rep
s=open('segno/writers.py').read()
for fn in ('def write_pbm','def write_pam','def write_xpm','def write_xbm'):
    i=s.index(fn)
    j=s.index("    width, height, border = _valid_width_height_and_border(matrix_size, scale, border)", i)
    s=s[:j]+"    scale = int(scale)\n"+s[j:]
open('segno/writers.py','w').write(s)
