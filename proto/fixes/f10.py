import sys; sys.path.insert(0,'/verif/tools'); from edit import rep
rep('segno/writers.py', "        maxval = max(chain(stroke_color, bg_color))\n", "        maxval = 255\n")
