import sys; sys.path.insert(0,'/verif/tools'); from edit import rep
rep('segno/encoder.py', """            idx = seq.find(n3_pattern, offset)
        return count""", """            # Occurrences may overlap (at idx + 4 or idx + 6), do not skip them
            idx = seq.find(n3_pattern, idx + 4)
        return count""")
