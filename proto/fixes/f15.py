import sys; sys.path.insert(0,'/verif/tools'); from edit import rep
rep('segno/helpers.py', """_VCARD_ESCAPE = {
    ord(','): '\\\\,',
    ord(';'): '\\\;',
}""", """_VCARD_ESCAPE = {
    ord(','): '\\\\,',
    ord(';'): '\\\;',
    ord('\\n'): '\\\\n',
    ord('\\r'): '',
}""")
