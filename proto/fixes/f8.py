import sys; sys.path.insert(0,'/verif/tools'); from edit import rep
rep('segno/utils.py', "if i == 8 and (j < 9 or (not is_micro and j > width - 10))", "if i == 8 and (j < 9 or (not is_micro and j > width - 9))")
