import sys; sys.path.insert(0,'/verif/tools'); from edit import rep
rep('segno/helpers.py', """            data.append(f'{delim}{key}={quote(val.encode("utf-8"))}')
        delim = '&'""", """            data.append(f'{delim}{key}={quote(val.encode("utf-8"))}')
            delim = '&'""")
