import sys; sys.path.insert(0,'/verif/tools'); from edit import rep
rep('segno/writers.py', """    if scale > 1:
        append_cmd(f'{scale} 0 0 {scale} 0 0 cm')
    if light is not None:
        # If the background color is defined, a rect is drawn in the background
        append_cmd('{} {} {} rg'.format(*to_pdf_color(light)))
        append_cmd(f'0 0 {width} {height} re')
        append_cmd('f q')
""", """    if light is not None:
        # If the background color is defined, a rect is drawn in the background
        append_cmd('{} {} {} rg'.format(*to_pdf_color(light)))
        append_cmd(f'0 0 {width} {height} re')
        append_cmd('f q')
    if scale != 1:
        append_cmd(f'{scale} 0 0 {scale} 0 0 cm')
""")
