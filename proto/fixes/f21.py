import sys; sys.path.insert(0,'/verif/tools'); from edit import rep
rep('segno/writers.py', "16: .625,", "16: .0625,")
