import sys; sys.path.insert(0,'/verif/tools'); from edit import rep
# two-colour shortcut only if all dark types share one colour and all light types the other
rep('segno/writers.py', """    if number_of_colors > 2:
        # Need the more expensive matrix iterator""", """    is_two_tone = len({clr_map[mt] for mt in clr_map if mt >> 8}) == 1 \\
        and len({clr_map[mt] for mt in clr_map if not mt >> 8}) == 1
    if not is_two_tone:
        # Need the more expensive matrix iterator""")
rep('segno/writers.py', """    is_multicolor = len(set(colormap.values())) > 2
""", """    is_multicolor = len({clr for mt, clr in colormap.items() if mt >> 8}) > 1 \\
        or len({clr for mt, clr in colormap.items() if not mt >> 8}) > 1
""")
