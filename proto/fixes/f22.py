import sys; sys.path.insert(0,'/verif/tools'); from edit import rep
rep('segno/writers.py', "            return 1 / 255.0 * c if c != 1 else c\n", "            return 1 / 255.0 * c\n", count=2)
