import sys; sys.path.insert(0,'/verif/tools'); from edit import rep
rep('segno/encoder.py', """            overhead += len(self.modes) * 4
        elif version > consts.VERSION_M1:""", """            overhead += len(self.modes) * 4
            # Hanzi: 4 bits for the subset indicator
            overhead += self.modes.count(consts.MODE_HANZI) * 4
        elif version > consts.VERSION_M1:""")
