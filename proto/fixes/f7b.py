import sys; sys.path.insert(0,'/verif/tools'); from edit import rep
rep('segno/encoder.py', """    if version in (consts.VERSION_M1, consts.VERSION_M3):
        write([0] * (capacity - length))
    else:""", """    if version in (consts.VERSION_M1, consts.VERSION_M3):
        write([0] * (-length % 8))
        pad_codewords = ((1, 1, 1, 0, 1, 1, 0, 0), (0, 0, 0, 1, 0, 0, 0, 1))
        for i in range((capacity - len(buff)) // 8):
            write(pad_codewords[i % 2])
        write([0] * (capacity - len(buff)))
    else:""")
