import sys; sys.path.insert(0,'/verif/tools'); from edit import rep
rep('segno/encoder.py', """    char_count = segment_length if segment_mode not in (consts.MODE_KANJI, consts.MODE_HANZI) else segment_length // 2
""", """    char_count = segment_length if segment_mode not in (consts.MODE_KANJI, consts.MODE_HANZI) else segment_length // 2
    if segment_mode in (consts.MODE_KANJI, consts.MODE_HANZI) and segment_length % 2:
        raise ValueError(f'The provided mode "{get_mode_name(segment_mode)}" '
                         f'is not applicable for {segment_data!r}: odd number of bytes')
""")
