import sys; sys.path.insert(0,'/verif/tools'); from edit import rep
rep('segno/cli.py', """        config = {k: config[k] for k in config if k in supported_args}
""", """        config = {k: config[k] for k in config if k in supported_args}
        if config.get('unit', '') is None:
            # No unit provided: Use the default unit of the serializer
            del config['unit']
""")
