import sys; sys.path.insert(0,'/verif/tools'); from edit import rep
rep('segno/writers.py', "    if color[0] == '#':\n        color = color[1:]", "    if color[:1] == '#':\n        color = color[1:]")
