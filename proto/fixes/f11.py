import sys; sys.path.insert(0,'/verif/tools'); from edit import rep
rep('segno/writers.py', "coordinates[colormap[consts.TYPE_QUIET_ZONE]] = [(0, 0, width // scale)]", "coordinates[colormap[consts.TYPE_QUIET_ZONE]] = [(0, 0, matrix_size[0] + 2 * border)]")
rep('segno/writers.py', "f'v{height // scale}h-{width // scale}z\"/>'", "f'v{matrix_size[1] + 2 * border}h-{matrix_size[0] + 2 * border}z\"/>'")
