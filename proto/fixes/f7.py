import sys; sys.path.insert(0,'/verif/tools'); from edit import rep
rep('segno/encoder.py', "        buff.extend([0] * (8 - (length % 8)))", "        buff.extend([0] * (-length % 8))")
