import sys; sys.path.insert(0,'/verif/tools'); from edit import rep
rep('segno/consts.py', "    'cp437': 1,", "    'cp437': 2,")
