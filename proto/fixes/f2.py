import sys; sys.path.insert(0,'/verif/tools'); from edit import rep
rep('segno/encoder.py', """    micro_allowed = micro or micro is None
    min_version""", """    micro_allowed = (micro or micro is None) and not eci
    min_version""")
