import qrref as R, readers as RD, vreaders as V, segno, random, sys, collections, io, traceback
from fractions import Fraction as F
rnd=random.Random(int(sys.argv[1])); N=int(sys.argv[2])
KEYS={'finder_dark':(R.FINDER,1),'finder_light':(R.FINDER,0),'data_dark':(R.DATA,1),'data_light':(R.DATA,0),'version_dark':(R.VERSION,1),'version_light':(R.VERSION,0),'format_dark':(R.FORMAT,1),'format_light':(R.FORMAT,0),'alignment_dark':(R.ALIGNMENT,1),'alignment_light':(R.ALIGNMENT,0),'timing_dark':(R.TIMING,1),'timing_light':(R.TIMING,0),'separator':(R.SEPARATOR,0),'dark_module':(R.DARKMODULE,1),'quiet_zone':('qz',0)}
cls=collections.Counter(); ex={}
def note(k,e): cls[k]+=1; ex.setdefault(k,e)
def rc(none_ok=False, alpha=False):
    if none_ok and rnd.random()<0.15: return None,None
    c=tuple(rnd.randrange(256) for _ in range(3))
    if alpha and rnd.random()<0.2:
        c=c+(rnd.randrange(256),); return c,c
    return c,c+(255,)
for it in range(N):
    v=rnd.choice(list(R.ALL_VERSIONS[:14])+[14,21,40] if rnd.random()<0.9 else [7,8])
    try: q=segno.make('123', version=v)
    except ValueError: continue
    n=len(q.matrix); cl,_=R.function_map(v)
    fmt=rnd.choice(['png','png','svg','ppm'])
    scale=rnd.choice([1,2,3]); border=rnd.choice([None,0,1,3])
    b=border if border is not None else (2 if q.is_micro else 4)
    kw=dict(scale=scale,border=border)
    ds,d=rc(none_ok=fmt=='png', alpha=fmt=='png'); ls,l=rc(none_ok=fmt in('png','svg'), alpha=fmt=='png')
    if fmt=='png' and d is None and l is None: continue
    kw['dark']=ds; kw['light']=ls
    cm={}
    for k in rnd.sample(list(KEYS), rnd.choice([0,1,2,3,5,8,15])):
        s_,c_=rc(none_ok=fmt in('png','svg'), alpha=fmt=='png'); kw[k]=s_; cm[KEYS[k]]=c_
    def exp_color(r,c):
        if 0<=r<n and 0<=c<n:
            key=(cl[r][c], q.matrix[r][c])
            if key in cm: return cm[key]
            # the problematic known finding (8, n-9) in QR
            return d if q.matrix[r][c] else l
        return cm.get(('qz',0), l)
    # the known misclassification: module (8,n-9) is reported as format
    try:
        if fmt=='png':
            buf=io.BytesIO(); q.save(buf,kind='png',**kw)
            w,h,px,info=RD.read_png(buf.getvalue())
            size=(n+2*b)*scale
            if (w,h)!=(size,size): note(('DIM',fmt),(v,kw)); continue
            bad=[]
            for y in range(h):
                for x in range(w):
                    r,c=y//scale-b, x//scale-b
                    e=exp_color(r,c); p=px[y][x]
                    okp = (p[3]==0) if e is None else p==e
                    if not okp: bad.append((r,c,p,e))
            known=[x for x in bad if not q.is_micro and (x[0],x[1])==(8,n-9)]
            if len(bad)>len(known): note(('PIX',fmt,info['depth']),(v,kw,bad[:3],info)); continue
            note(('ok' if not known else 'known-8-n9',fmt,info['ctype'],info['depth']),0)
        elif fmt=='ppm':
            buf=io.BytesIO(); q.save(buf,kind='ppm',**kw)
            w,h,maxval,rows=RD.read_ppm(buf.getvalue())
            bad=[]
            for y in range(h):
                for x in range(w):
                    r,c=y//scale-b, x//scale-b
                    e=exp_color(r,c)
                    if rows[y][x]!=e[:3]: bad.append((r,c))
            known=[x for x in bad if not q.is_micro and x==(8,n-9)]
            if len(bad)>len(known): note(('PIX',fmt),(v,kw,bad[:3])); continue
            note(('ok' if not known else 'known-8-n9',fmt),0)
        else:
            buf=io.BytesIO(); q.save(buf,kind='svg',**kw)
            dd=V.read_svg(buf.getvalue())
            t=n+2*b
            grid=[[None]*t for _ in range(t)]
            # paint in document order: backgrounds first
            def hexc(cs):
                if cs is None: return None
                if isinstance(cs,tuple): cs=cs[0]
                names={'red':(255,0,0),'tan':(210,180,140)}
                if cs in names: return names[cs]+(255,)
                cs=cs.lstrip('#')
                if len(cs)==3: cs=''.join(ch*2 for ch in cs)
                return tuple(int(cs[i:i+2],16) for i in (0,2,4))+(255,)
            for fill,rect,sc,pos in dd['backgrounds']:
                x0,y0,w0,h0=rect
                for r in range(int(y0),int(y0+h0)):
                    for c in range(int(x0),int(x0+w0)): grid[r][c]=hexc(fill)
            for (col,x1,y,x2,lw,sc) in dd['segments']:
                r=int(y-F(1,2))
                for c in range(int(x1),int(x2)):
                    if grid[r][c] is not None and not dd['backgrounds']: note(('OVERPAINT',fmt),(v,kw))
                    grid[r][c]=hexc(col)
            bad=[]
            for r in range(t):
                for c in range(t):
                    e=exp_color(r-b,c-b)
                    if grid[r][c]!=e: bad.append((r-b,c-b,grid[r][c],e))
            known=[x for x in bad if not q.is_micro and (x[0],x[1])==(8,n-9)]
            if len(bad)>len(known): note(('PIX',fmt),(v,kw,bad[:3])); continue
            note(('ok' if not known else 'known-8-n9',fmt),0)
    except (RD.FormatError,V.FormatError) as e: note(('MALFORMED',fmt,str(e)[:50]),(v,kw))
    except ValueError as e: note(('refused',fmt,str(e)[:50]),(v,kw))
    except Exception as e:
        tb=traceback.extract_tb(e.__traceback__)[-1]; note(('EXC',fmt,type(e).__name__,tb.name,tb.lineno),(v,kw,str(e)[:80]))
for k,c in sorted(cls.items(), key=lambda x:str(x[0])): print(c,k,ex[k] if ex[k] else '')
