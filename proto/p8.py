import qrref as R, segno, random, sys, collections
rnd=random.Random(int(sys.argv[1])); N=int(sys.argv[2])
def iso_tail(v, lvl, end):
    cap=R.data_capacity_bits(v,lvl)
    bits=[]
    t=min(cap-end, R.terminator_bits(v)); bits+= [0]*t
    pos=end+t
    half = v in ('M1','M3')
    # codeword boundaries: 8-bit codewords; in M1/M3 the last codeword is 4 bit
    if pos%8 and pos<cap:
        pad=min(8-pos%8, cap-pos); bits+=[0]*pad; pos+=pad
    i=0
    while cap-pos>=8:
        cw=(0xEC,0x11)[i%2]; i+=1
        bits+=[(cw>>k)&1 for k in range(7,-1,-1)]; pos+=8
    if pos<cap:
        assert half and cap-pos==4, (v,lvl,end,pos,cap)
        bits+=[0]*4
    return bits
def segno_tail(v,lvl,end):
    cap=R.data_capacity_bits(v,lvl)
    bits=[0]*min(cap-end,R.terminator_bits(v)); pos=end+len(bits)
    if v in ('M1','M3'):
        bits+=[0]*(cap-pos); return bits
    pad=8-pos%8; bits+=[0]*pad; pos+=pad
    for i in range(cap//8-pos//8):
        cw=(0xEC,0x11)[i%2]; bits+=[(cw>>k)&1 for k in range(7,-1,-1)]
    return bits[:cap-end]
cls=collections.Counter(); ex={}
for it in range(N):
    mode=rnd.choice(['n','a','b'])
    n=rnd.randint(1,60)
    s=''.join(rnd.choice({'n':'0123456789','a':R.ALNUM,'b':'abcdefgh,;'}[mode]) for _ in range(n))
    kw={}
    if rnd.random()<0.5: kw['micro']=rnd.choice([True,False])
    if rnd.random()<0.5: kw['error']=rnd.choice('LMQH')
    if rnd.random()<0.5: kw['boost_error']=False
    try: q=segno.make(s,**kw)
    except ValueError: continue
    d=R.decode(q.matrix); v=d['version']; lvl=d['level']
    obs=d['data_bits'][d['end']:]
    exp=iso_tail(v,lvl,d['end'])
    if obs==exp: k='iso'
    elif obs==segno_tail(v,lvl,d['end']):
        k='known-micro-zero' if v in ('M1','M3') else 'known-aligned-extra'
    else: k='OTHER'
    cls[(k, 'micro' if R.is_micro(v) else 'qr')]+=1; ex.setdefault(k,(s,kw,q.designator))
print(cls); print(ex)
