import qrref as R, pen, segno, random, sys, collections
rnd=random.Random(int(sys.argv[1]))
N=int(sys.argv[2])
diff=0; diff_nonoverlap=0; tot=0; ex=[]
for it in range(N):
    n=rnd.choice([1,3,5,8,10,14,20,30,50,80])
    s=''.join(rnd.choice('abcdefghijklmnopqrstuvwxyz0123456789 ABC') for _ in range(n))
    kw={}
    if rnd.random()<0.5: kw['micro']=False
    if rnd.random()<0.3: kw['error']=rnd.choice('LMQ')
    q=segno.make(s, **kw)
    v=q.version
    b,sc=pen.best_mask(q.matrix, v, q.mask, True)
    tot+=1
    if b!=q.mask:
        diff+=1
        b2,sc2=pen.best_mask(q.matrix, v, q.mask, False)
        if b2!=q.mask: diff_nonoverlap+=1; ex.append((s,kw,q.designator,q.mask,b2,sc2))
        elif len(ex)<3: ex.append(('overlap-only', s,kw,q.designator,q.mask,b,sc))
print(tot,diff,diff_nonoverlap); print(ex[:5])
