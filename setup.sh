#!/bin/bash
# Offline setup: verifies / installs the Python dependencies of the checks and runs the
# self-test of the trusted base.  Nothing is fetched from a network.
set -e
cd "$(dirname "$0")"
PY=/venv/bin/python
if ! $PY -c "import hypothesis" 2>/dev/null; then
    mkdir -p .deps
    /venv/bin/pip install --quiet --no-index --find-links /opt/veriftools/wheels --target .deps hypothesis
fi
if ! PYTHONPATH=.deps $PY -c "import atheris" 2>/dev/null; then
    mkdir -p .deps
    /venv/bin/pip install --quiet --no-index --find-links /opt/veriftools/wheels --target .deps atheris \
        || echo "note: atheris not installable, the optional fuzz engine is skipped"
fi
PYTHONPATH=.:.deps PYTHONDONTWRITEBYTECODE=1 $PY -m vlib.selftest
